#!/bin/sh
# tools/run_all.sh [tier] [seed]  -- every claimed check on the current tree, one line per check
TIER="${1:-quick}"; SEED="${2:-0}"
cd /verif || exit 2
rc=0
for id in C01 C02 C03 C04 C05 C06 C07 C08 C09 C10 C11 C12 C13 C14 C15 C16 C17 C18 C19 C20; do
  out=$(VERIF_SEED=$SEED ./check $id --tier $TIER 2>&1); r=$?
  echo "$id rc=$r $(echo "$out" | grep "tier=" | tail -1)"
  echo "$out" | grep "^VIOLATION" | head -3
  [ $r -ne 0 ] && rc=1
done
exit $rc
