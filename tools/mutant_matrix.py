#!/opt/veriftools/pyvenv/bin/python
"""tools/mutant_matrix.py [ids...] -- apply every seeded change to /repo in turn, run the check of its property (quick tier),
revert, and record the outcome in seeded/<id>/meta.json (detected_by) and seeded/matrix.json."""
import json, os, subprocess, sys, glob
V = "/verif"
res = {}
ids = sorted(os.path.basename(d) for d in glob.glob(V + "/seeded/C*-*"))
if len(sys.argv) > 1:
    ids = [i for i in ids if i in sys.argv[1:] or i.split("-")[0] in sys.argv[1:]]
if subprocess.run(["git", "-C", "/repo", "status", "--porcelain", "--untracked-files=no"], stdout=subprocess.PIPE).stdout.strip():
    sys.exit("/repo not clean")
for mid in ids:
    prop = mid.split("-")[0]
    patch = os.path.join(V, "seeded", mid, "patch.diff")
    a = subprocess.run(["git", "-C", "/repo", "apply", patch], stdout=subprocess.PIPE, stderr=subprocess.STDOUT)
    if a.returncode != 0:
        res[mid] = {"applies": False, "detected": None, "note": a.stdout.decode()[-200:]}
        print(mid, "PATCH DOES NOT APPLY", flush=True)
        continue
    try:
        extra = json.load(open(os.path.join(V, "seeded", mid, "meta.json"))).get("also_run", [])
    except Exception:
        extra = []
    by = []
    sigs = []
    nv = 0
    try:
        for chk in [prop] + list(extra):
            r = subprocess.run([V + "/check", chk, "--tier", "quick"], stdout=subprocess.PIPE, stderr=subprocess.STDOUT, cwd=V)
            out = r.stdout.decode(errors="replace")
            s_ = [ln.split("signature:")[1].strip() for ln in out.splitlines() if "signature:" in ln]
            n_ = sum(1 for ln in out.splitlines() if ln.startswith("VIOLATION"))
            if r.returncode == 1 and n_ > 0:
                by.append(chk)
                sigs += ["%s: %s" % (chk, x) for x in s_[:4]]
                nv += n_
    finally:
        subprocess.run(["git", "-C", "/repo", "checkout", "--", "."])
    res[mid] = {"applies": True, "detected": bool(by), "detected_by": by, "violations": nv, "signatures": sigs[:6]}
    print(mid, "detected" if res[mid]["detected"] else "MISSED", nv, sigs[:2], flush=True)
    mp = os.path.join(V, "seeded", mid, "meta.json")
    try:
        m = json.load(open(mp))
    except Exception:
        m = {}
    m["detected_by"] = by
    m["detected_signatures"] = sigs[:6]
    json.dump(m, open(mp, "w"), indent=1)
old = {}
try:
    old = json.load(open(V + "/seeded/matrix.json"))
except Exception:
    pass
old.update(res)
json.dump(old, open(V + "/seeded/matrix.json", "w"), indent=1, sort_keys=True)
