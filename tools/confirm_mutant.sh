#!/bin/sh
# tools/confirm_mutant.sh <mutant_dir> <name>
# Confirms in a scratch worktree of /repo HEAD: patch applies, library builds, pinned tests pass with it,
# demo fails with it and passes without it. On success copies patch.diff/demo/meta into /verif/seeded/<name>/.
M="$1"; NAME="$2"
W=/tmp/confirm_$NAME
git -C /repo worktree remove --force $W >/dev/null 2>&1
git -C /repo worktree add --detach $W HEAD -q || exit 2
cleanup() { git -C /repo worktree remove --force $W >/dev/null 2>&1; }
cd $W
git apply "$M/patch.diff" || { echo "RESULT $NAME: patch does not apply"; cleanup; exit 1; }
BL=$(/verif/tools/baseline.sh $W 2>&1 | grep "baseline stable_pass" )
echo "with patch: $BL"
case "$BL" in *missing=0*) ;; *) echo "RESULT $NAME: baseline fails with the mutant"; cleanup; exit 1;; esac
DEMO=$(ls $M/demo.* | head -1)
timeout 600 /venv/bin/python $DEMO $W > /var/tmp/confirm_$NAME.with 2>&1; RW=$?
git checkout -- . 
# rebuild only
SUF=$(/venv/bin/python -c "import sysconfig;print(sysconfig.get_config_var('EXT_SUFFIX'))")
O=$(mktemp -d /var/tmp/vbl.XXXXXX)
ls src/*.c | grep -v "glad.c\|communication_mpi.c" | xargs -P16 -I{} sh -c 'gcc -c -O3 -std=c99 -fstrict-aliasing -w -DGITHASH=verif -DLIBREBOUND -D_GNU_SOURCE -DSERVER -fPIC -Isrc {} -o '$O'/$(basename {} .c).o'
gcc -shared $O/*.o -lm -lrt -lpthread -o "librebound$SUF"; rm -rf $O
timeout 600 /venv/bin/python $DEMO $W > /var/tmp/confirm_$NAME.without 2>&1; RO=$?
echo "demo with mutant: exit $RW; without: exit $RO"
if [ $RW -ne 0 ] && [ $RO -eq 0 ]; then
  mkdir -p /verif/seeded/$NAME
  cp "$M/patch.diff" /verif/seeded/$NAME/patch.diff
  cp $DEMO /verif/seeded/$NAME/
  /venv/bin/python - "$M" "$NAME" "$BL" "$RW" "$RO" <<'P'
import json,sys
m,name,bl,rw,ro=sys.argv[1:]
try: meta=json.load(open(m+'/meta.json'))
except Exception: meta={}
out={"property":meta.get("property",name.split('-')[0]),"summary":meta.get("summary"),"needs_to_manifest":meta.get("needs_to_manifest"),
 "confirmed":{"worktree":"scratch worktree of /repo HEAD under /tmp (removed)","baseline_with_mutant":bl,"demo_exit_with_mutant":int(rw),"demo_exit_without":int(ro),
 "demo_output_with":open('/var/tmp/confirm_%s.with'%name).read()[-1500:]}, "detected_by":[]}
json.dump(out,open('/verif/seeded/%s/meta.json'%name,'w'),indent=1)
P
  echo "RESULT $NAME: confirmed, kept in /verif/seeded/$NAME"
else
  echo "RESULT $NAME: demo does not discriminate"
fi
rm -f /var/tmp/confirm_$NAME.with /var/tmp/confirm_$NAME.without
cleanup
