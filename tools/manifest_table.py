ENGINES = [
    {"name": "histmc", "path": "mc/histmc.py", "serves_properties": ["C14"],
     "kind_free_text": "explicit-state breadth-first exploration of operation histories on the real library object (state = history, canonical digest de-duplication, reference-model oracle on every transition)"},
]
NOTES = ("All checks explore the real implementation rebuilt from /repo's working tree (mc/build.py); no abstract model is used, "
         "so traces_validated_against_impl equals the number of executed transitions. known_findings.json lists repaired defects (fixed:) and recorded ones.")
NOT_APPLICABLE = {}
CHECKS = {
    "C14": {
        "engine": "histmc", "category": "model_checking",
        "technique": "explicit-state BFS over operation histories of the real (ASan-built) simulation object against a reference list model",
        "text": "Every history over the alphabet add / remove(index,keep_sorted) / remove(hash) / set-hash / lookup / remove-all / set N_active / update_tree|step "
                "up to depth 4 (quick) or 5 (thorough) is executed on the real library through both the C API and the Python container, in 10 configurations "
                "(IAS15, tree, MERCURIUS, TRACE, storage-growth prefill); after every transition the particle list, N_active and lookup results are compared with a list model, "
                "failed requests must leave the serialized state unchanged, and ASan/UBSan abort on any out-of-bounds access.",
        "note": "Bounded depth; hash alphabet of 4 values incl. zero and duplicates; N_active only demanded where documented; tree mode with N==1 unspecified.",
    },
}
