ENGINES = [
    {"name": "schedmc", "path": "mc/checks/c19.py", "serves_properties": ["C19"],
     "kind_free_text": "stateless schedule enumeration on the real library under an LD_PRELOAD scheduler shim (native/c19_shim.c): the integration thread is stopped at every entry/exit event of its loop and the server thread runs against it; plus exhaustive audit of the library's writable globals and all step interleavings of two simulations"},
    {"name": "crashmc", "path": "mc/crashmc.py", "serves_properties": ["C07"],
     "kind_free_text": "crash-point enumeration over the syscall log (strace) of the real writer: all byte prefixes of the write sequence, recovery and restart executed on the real library"},
    {"name": "gridmc", "path": "mc/checks", "serves_properties": ["C01", "C02", "C03", "C10", "C11", "C12", "C16", "C18", "C20"],
     "kind_free_text": "exhaustive enumeration of finite option lattices / member lists crossed with small branch-covering data alphabets, each point compared with an oracle independent of REBOUND"},
    {"name": "histmc", "path": "mc/histmc.py", "serves_properties": ["C04", "C05", "C06", "C08", "C09", "C13", "C14", "C15", "C17"],
     "kind_free_text": "explicit-state breadth-first exploration of operation histories on the real library object (state = history, canonical digest de-duplication, reference-model oracle on every transition)"},
]
NOTES = ("All checks explore the real implementation rebuilt from /repo's working tree (mc/build.py); no abstract model is used, "
         "so traces_validated_against_impl equals the number of executed transitions. known_findings.json lists repaired defects (fixed:) and recorded ones.")
NOT_APPLICABLE = {}
CHECKS = {
    "C19": {
        "engine": "schedmc", "category": "exploration",
        "technique": "exhaustive enumeration of schedules at call granularity on the real code: one controlled execution per (configuration, event index of the integration thread, client request), the web-server thread running while the integration thread is held at that event; all interleavings of the steps of two simulations; audit of every writable global of the library; ThreadSanitizer and bit comparison on free-running threads as the separate race pass",
        "text": "S: 14 integrator configurations (WHFast safe/unsafe/keep_unsynchronized/corrector/DH, SABA, MERCURIUS, IAS15, LEAPFROG, EOS, TRACE, BS, JANUS; exact_finish_time 1 and 0) x every event of a 4.5-step integrate() (38-322 events: entry/exit of reb_check_exit, reb_simulation_synchronize, reb_simulation_step, Kepler and COM sub-steps, lock/unlock of the server mutex) x GET /simulation, plus 7 malformed/other requests at every 7th (thorough: 2nd) event: 1.9k (thorough 6k) schedules. If the server has to wait for the mutex the integration thread is advanced event by event until the response is complete. "
                "Oracles: integrate() returns without error, final state bitwise equal to the run without a server, the response is a loadable snapshot at the time of a step boundary, and continuing it to the end gives bitwise the state obtained from a copy taken at that boundary. "
                "T: (1) every byte of librebound's .data/.bss before and after a workload over 13 integrator settings incl. copy/save/load/MEGNO/collisions (only reb_sigint may change); (2) all C(2k,k) interleavings of k=3 (thorough 4) steps of simulations A and B for all 169 ordered pairs of settings vs A and B alone; (3) 16 workloads (create, integrate, outputs in deferred-synchronisation modes, copy, save, load, free) in 16 concurrent threads: state hashes vs sequential run (4-20 repetitions) and ThreadSanitizer reports (only the reb_sigint flag allowed).",
        "note": "Granularity of S is the function-call events listed; within one such interval the server's critical section runs atomically with respect to the stopped integration thread. One client at a time (the server is single-threaded). Instruction-level races between independent simulations are looked for by ThreadSanitizer's happens-before analysis, which is a detector and not an enumeration. whfast keep_unsynchronized with exact_finish_time=1 is excluded here (recorded C08 finding).",
    },
    "C16": {
        "engine": "gridmc", "category": "exploration",
        "technique": "exhaustive enumeration of (A) all 65 derivative constructors on an element lattice against 40-digit numerical differentiation of an independent element map, (B) the lattice system x integrator setting x order x varied particle x parameter (pair) x test-particle flag x horizon, each variational run compared with Richardson-extrapolated finite differences of shadow runs, (C) rescaling cases, (D) MEGNO runs",
        "text": "A: 12 first-order and 53 second-order constructors (every name pair of {m,a,e,inc,Omega,omega,f} and of {m,a,lambda,h,k,ix,iy}) x 4 element points (incl. near-circular/near-planar and retrograde) x 2 (G, masses) x 2 primary states; agreement to 1e-9 of the largest component, mass component. "
                "B: systems V3 (two planets), V3h (masses 1e-2), V4t (N_active=3 plus a test particle) x {IAS15, BS, WHFast correctors 0/3/17 x safe/unsafe/keep_unsynchronized, LEAPFROG} first order x every particle x {x,y,z,vx,vy,vz,m, a,e,inc,Omega,omega,f,m(elements fixed), lambda,h,k,ix,iy} and test-particle variations; {IAS15, BS} second order x every pair within the Cartesian, classical and Pal sets plus cross-particle pairs; 92 steps (thorough: also 800 steps): 3.1k variational runs, 4-8 shadow runs each; BS second order against IAS15's variational particles. "
                "C: variation started at 9e99 vs unit variation for IAS15, BS, LEAPFROG and 9 WHFast settings (exp(lrescale) x variation must be 9e99 x the unit variation; lrescale plausible). D: MEGNO within 0.15 (thorough 0.05) of 2 and Lyapunov estimate -> 0 over 300 (3000) orbits for IAS15 and 9 WHFast settings. Variations carried through move_to_com() (mass, Cartesian and element parameters, orders 1 and 2) against shadow runs each moved to its own centre of mass.",
        "note": "WHFast: Jacobi coordinates and default kernel only (everything else is refused by the library), no test-particle variations (refused), mass variations are a recorded finding. Initial conditions of the shadow runs come from an independent element map, not from REBOUND.",
    },
    "C04": {
        "engine": "histmc", "category": "exploration",
        "technique": "exhaustive enumeration of (A) the integrator option lattice x boosted systems x direction, (B) every operation history over {step, 3 steps, synchronize, switch to one of 11 integrators} up to depth 3 (thorough 4) from 16 initial configurations, (C) every insertion order of the bodies x integrator x merge time for a merging collision inside a close encounter; invariants evaluated in longdouble after every operation",
        "text": "A: all 374 documented integrator settings x {forward, backward} on S3 (thorough: also S4G and the 9-body S9), the whole system displaced and boosted so the centre of mass moves, 2000 steps (thorough 1e4) with synchronisation every 250 (1000) steps: total mass exact, momentum and uniform centre-of-mass motion to rounding (1024 u sqrt(n)), angular momentum to rounding for the fixed-step schemes and hybrid schemes (4096 u sqrt(n)) and to the accuracy class for IAS15 / BS / JANUS (grid) / barycentric WHFast, energy within the class bound, no growth between the two halves for the Wisdom-Holman family; diagnostics vs longdouble sums. "
                "B: 13.6k (thorough 183k) distinct histories, invariants measured on a synchronised copy after every operation (class of the least accurate integrator used). "
                "C: star + colliding pair + companion inside the switch-over radius + 1 (thorough 2) distant planets: all 24 (120) insertion orders x {MERCURIUS safe/unsafe, TRACE, IAS15, BS, WHFast, LEAPFROG} x 2 (4) merge times: exactly one merger, mass exact, momentum and centre of mass to rounding, energy + tracked offset within class, and the same energy error and final state whatever the insertion order. "
                "D: energy(), angular_momentum(), com(), com(first,last) vs their definitions in 40-digit arithmetic on N 1..6 x 3 mass patterns x variational particles present x softening x offset 1e6. E: close encounters without a collision on a moving system (planets at a=1.0 and 1.03 plus one or two more): every insertion order x {MERCURIUS safe/unsafe, TRACE x 3 peri modes, IAS15}, 2000 (thorough 1e4) steps: momentum and uniform centre-of-mass motion to rounding, angular momentum and energy within class (TRACE rejects and repeats steps here).",
        "note": "Switching integrators follows the documented discipline (really synchronize, select, reset sim.gravity, set dt); targets of a switch run in safe mode. Energy across mergers is bounded loosely (the tracked offset ignores the pair's potential with third bodies; the statement claims mass and momentum only). Processed EOS splittings and LEAPFROG are judged by their bound, not by the no-growth test (their error oscillates with periods longer than the run).",
    },
    "C01": {
        "engine": "gridmc", "category": "exploration",
        "technique": "exhaustive enumeration of the documented integrator option lattice x test-particle setting x direction x system x three step sizes, each run compared with an independent longdouble Gragg-Bulirsch-Stoer reference; order and accuracy-class oracles, differential relations, user ODEs",
        "text": "All 374 documented integrator settings (WHFast 4 kernels x 6 correctors x corrector2 x Jacobi, barycentric x 6 correctors, DH, WHDS, each x safe/unsafe/keep_unsynchronized; 18 SABA types x 3 safety modes; 9x9 EOS splittings + 27 unsafe ones; IAS15 4 adaptive modes x epsilon; LEAPFROG; JANUS 5 orders x 4 grids (two with scale_pos != scale_vel); BS 2 tolerances; MERCURIUS 4 switching functions x r_crit x safe mode; TRACE 3 peri modes x 2 switching conditions) "
                "x {all active, massless test particle (type 0), massive test particle of type 1} x {forward, backward} (quick: 4 of the 6 combinations on system S3; thorough: all 6 on S3, S3t, S4G) x h = P/20, P/40, P/80 over two inner periods. "
                "Oracles: error against the reference shrinks at the advertised classical order p (E(h)/E(h/4) >= 4^(p-1/2) or E(h/2)/E(h/4) >= 2^(p-1/2); pairs at the rounding floor unused), accuracy class for IAS15 (1e-11) and BS (3e3 x tolerance), end time, finiteness; relations: symplectic corrector >= 3 cuts the error below 0.3x, "
                "kernel + high-order corrector below 0.5x the default kernel, forward/backward errors within 100x. User ODEs (harmonic oscillator, explicitly time-dependent right-hand side, quadrature coupled to a particle coordinate) advanced with BS, IAS15, WHFast, MERCURIUS against closed forms / the reference.",
        "note": "Initial conditions are reduced to three well-separated systems. WHFast512 (AVX512 build, run in a process of its own by mc/w512.py): N_systems 1/2/4 x keep_unsynchronized, stars of different mass, order 2 against the reference and agreement with WHFast in democratic heliocentric coordinates to 1e-9. SEI is not in this check (its exact epicycle solution is covered by the symmetric-scheme part of C10 only).",
    },
    "C10": {
        "engine": "gridmc", "category": "exploration",
        "technique": "exhaustive enumeration of the JANUS option lattice x grid-representable initial conditions x step counts x directions with a bit-for-bit oracle, and of the symmetric fixed-step schemes with a rounding-level oracle",
        "text": "JANUS: order{2,4,6,8,10} x scale{1e-16,1e-12,1e-8} x N{2,3,4} x n{1,2,5,50; thorough 500} x 4 initial conditions snapped to (and verified as) fixed points of to_double(to_int(.)) x first direction x {plain, user-set recalculation flag, start from a state reached after modifying a particle}: "
                "n steps, dt -> -dt, n steps must restore every bit of x..vz and the integer state p_int. Symmetric schemes (WHFast x 4 coordinate systems x safe/unsafe, 10 uncorrected SABA types, 18 unprocessed EOS splittings, LEAPFROG, SEI free / self-gravitating / shearing box) on {S3, S4G, a hyperbolic flyby}: round trip error <= 2000 u n scale (observed maximum 79).",
        "note": "Non-chaotic few-body systems only; in the shearing box particles are kept away from the faces (the truncated image sum is discontinuous there).",
    },
    "C03": {
        "engine": "gridmc", "category": "exploration",
        "technique": "exhaustive enumeration of a branch-covering lattice of two-body inputs (e, a, GM, phase, dt/P, sign) through the exported Kepler solver and through one step of every WH-type integrator, against a 40-digit universal-variable propagation with closed-form Stumpff functions; every call under an alarm",
        "text": "9.4k solver inputs (quick; thorough 28k): e in {0,1e-12,1e-4,0.1,0.5,0.9,0.99,1-1e-6,1+1e-6,1.01,1.5,10,1e3} x a{1e-6,1,1e6} x GM{1e-3,1,1e3} x 12 phases (peri-/apocentre and +-1e-8 around them) x |dt|/P in {1e-8,1e-4,9e-3,1.1e-2 (solver switch),0.1,0.5,1,1.5,10,1e3} x sign "
                "through reb_whfast_kepler_solver; 7.4k single steps of WHFast x 4 coordinate systems, SABA1, MERCURIUS, TRACE on a two-body simulation (massless and, where the splitting is exact, massive secondary), and two-step sequences step/synchronize[/copy]/step in the deferred-synchronisation modes. "
                "Reference at 40 digits; tolerance = 4096x (solver) / 8192x (step) the summed effect of a 1-ulp change of each input on the reference plus the forward-error bound of the f-g evaluation (observed maximum 273x). Finite results and termination are part of the oracle.",
        "note": "Hybrid integrators only away from encounters (TRACE with S_peri=none, no near-parabolic pericentre passages). WHFast512 (AVX512 build, mc/w512.py): one step on 320 two-body cases against the exact orbit; its fixed-iteration solver is a recorded finding for steps long compared with the pericentre passage.",
    },
    "C11": {
        "engine": "gridmc", "category": "exploration",
        "technique": "exhaustive enumeration of an element lattice (branch-covering values for e, inc, angles, anomaly kinds), of all argument-name subsets up to size 4 through both front ends, and of an e x M lattice for the anomaly functions; oracle = 40-digit evaluation of the textbook map and of Kepler's equation",
        "text": "Anomaly functions on 15 eccentricities x 18 mean anomalies (incl. hyperbolic M=0, +-1e-300, +-1e3): Kepler's equation, E->f relation, ranges, C==Python. 93k element cases (quick): G x primary (at rest / displaced and moving, m 1 / 1e-3) x m x (e,a) in {0,1e-10,1e-4,0.1,0.9,1-1e-6,1+1e-6,1.5,10} x 10 inclinations (0, 1e-10, 2e-8, pi/2+-1e-9, pi-2e-8, pi) x Omega x omega|pomega x {f,M,E,l,theta,T} x values: "
                "forward map vs 40-digit reference with a conditioning-based tolerance, no NaN; Cartesian->elements: ranges, the returned (a,e,inc,Omega,omega,f) must rebuild the state, defining relations (pomega, theta, l, n^2a^3, h^2, Kepler's equation, T incl. hyperbolic sign, Pal definitions). "
                "All 17.9k subsets of <=4 of the 26 argument names through reb_particle_from_fmt (variadic, via ctypes) and Particle(): same accept/reject decision and same particle; 10 invalid value combinations rejected by both.",
        "note": "Reverse-map tolerances allow the sqrt(u) accuracy of acos-based angles and the 1/(1+e cos f) conditioning near hyperbolic asymptotes; Pal relations are compared for prograde orbits only.",
    },
    "C20": {
        "engine": "gridmc", "category": "exploration",
        "technique": "exhaustive enumeration of finite spaces: all unit triples and conversion chains, rotation constructors on a direction/angle lattice incl. degenerate pairs, frame shifts x variational orders, simulation arithmetic; oracles independent of REBOUND (IAU/CODATA table, Rodrigues formula, finite differences)",
        "text": "All 7x15x17=1785 unit triples (names from the package, values from an independent IAU/CODATA/JPL table): G vs G_SI*M*T^2/L^3, read-back, a 1 au/1 msun orbit has the same period in SI seconds; aliases bitwise equal, kyr/myr/gyr exact multiples; all 8.6k conversion chains A->B->C per dimension: dimensional exponents of m,x,v,a,r, reversible (8 ulp), transitive (16 ulp). "
                "Rotations: from_to on all 676 ordered pairs of the 26 lattice directions plus scaled (1e-8,1e8), +-1 ulp and generic parallel/antiparallel pairs; angle_axis on 33 axes x 9 angles vs Rodrigues, inverse and composition laws; orbit() on a 9x8x9 angle lattice vs Murray-Dermott and to_orbital round trip; to_new_axes; every result must be a proper rotation (lengths, dot products, orientation). "
                "Frames: {S3,S4G} x variational order {0,1,2} x {move_to_com, move_to_hel}: relative coordinates, reference point at the origin, variational particles vs Richardson-extrapolated finite differences of shifted perturbed systems. Arithmetic *,/,+,- and in-place forms bitwise equal to the same expression on coordinates; rotate() preserves E, |L|, distances.",
        "note": "SI consistency judged to 2e-4 relative (precision of published constants / CODATA revisions).",
    },
    "C02": {
        "engine": "gridmc", "category": "exploration",
        "technique": "exhaustive enumeration of the configuration lattice (N, N_active, testparticle_type, gravity_ignore_terms, softening, G, mass pattern, ghost boxes, root layouts, routine) crossed with a small position alphabet, each point compared with the statement's pairwise sum evaluated in 80-bit arithmetic",
        "text": "54k configurations (quick): routine {BASIC, COMPENSATED, TREE at theta=0} x N 0..5 (thorough 9) x N_active {-1,0..N} x testparticle_type x gravity_ignore_terms {0,1,2} x softening x G x 4 mass patterns (incl. zero masses among actives and 1:1e-6:1e-12) x 2 position sets "
                "x ghost boxes {none,(1,0,0),(1,1,0),(2,2,1)} x root layouts; MERCURIUS mode0+mode1 for every encounter subset x switching function and TRACE interaction+Kepler for every encounter subset x every 0/1 pattern of current_Ks must add up to the full heliocentric force. "
                "Reference: the softened pairwise sum with the source set defined by the statement (actives always, test particles on actives iff type 1, never on each other, ignore-terms, images), numpy.longdouble; tolerance (16+2N+4sqrt(N x images))*u*sum|terms|; all-active: sum m_i a_i = 0. JACOBI routine (WHFast kernels, SABA): N 2..6 (9) x G x 3 mass patterns (incl. massless bodies) x 2 position sets: the Jacobi transform of the routine's accelerations equals the Jacobi transform of the full pairwise sum plus the Kepler term G eta_i x'_i/|x'_i|^3.",
        "note": "The continuum of positions/masses is reduced to the stated alphabets. Not covered: the error bound of the tree code at finite opening angle, OPENMP/MPI/QUADRUPOLE builds.",
    },
    "C12": {
        "engine": "gridmc", "category": "exploration",
        "technique": "exhaustive enumeration of the lattice N x N_active x mass pattern x state set x coordinate system x variant, each point compared with the textbook definition evaluated in exact rational arithmetic",
        "text": "Every (N in 1..6, N_active in 1..N) x 5 mass patterns (equal, ratios down to 1e-15, zero-mass test particles, a zero-mass active body, massive test particles) x 2 state sets x {Jacobi, democratic heliocentric, WHDS, barycentric}: "
                "forward maps (posvel, posvelacc, acc) against the definition in exact rational arithmetic; slot 0 = (total active mass, centre of mass position/velocity/acceleration); variants agree with one another; "
                "inverse(forward(x)) = x into a mass-preloaded destination and into a stale scratch destination (only m0 valid), pos-only inverse = position part of posvel inverse, destination masses restored; barycentric inverse acc map fed with exact barycentric accelerations.",
        "note": "Tolerance 64(N+2)*u*scale amplified by the mass-ratio conditioning (M/m0, M/m_min for recovering body 0). reb_particles_transform_inertial_to_barycentric_acc is declared but not implemented in the tree and is therefore not called.",
    },
    "C15": {
        "engine": "histmc", "category": "model_checking",
        "technique": "exhaustive enumeration of particle placements x boundary x root layout x module x operation histories on the real ASan-built library, with a boundary oracle and a read-only tree walker evaluated after every operation",
        "text": "Ballistic particles from a 15-entry alphabet (positions exactly on and 1e-3 next to box faces and cell borders, velocities up to 2.3 boxes per step) in every 1-2 subset (quick; thorough: 1-3) x boundary {open, periodic, shear} x root layout {1x1x1, 2x1x1, 2x2x1} "
                "x module {tree gravity, tree collisions, none} x every history over {step, remove, add, move_to_com} up to depth 3 (quick) / 4 (thorough): ~1M transitions. After every step: periodic/shear - inside the box, particle set unchanged, x/z (and y) displacement from the free drift a whole number of box lengths, "
                "vy offset = 1.5*Omega*Lx per radial crossing, y offset consistent with the shear; open - survivors are exactly the particles whose free drift is still inside. After every step/move_to_com a ctypes walker over struct reb_treecell checks: each particle index in exactly one leaf, the leaf contains it, "
                "particles[i].c points to it, internal pt = -(particles below), child widths, and (after reb_simulation_update_tree_gravity_data) cell mass and centre of mass equal the sums over the contents. ASan aborts on any invalid access.",
        "note": "Trajectories are ballistic by construction (G=1e-30), so only wrapping/removal/tree bookkeeping is exercised; tree gravity/collision agreement with the direct routines is covered under C02/C13.",
    },
    "C13": {
        "engine": "histmc", "category": "model_checking",
        "technique": "exhaustive enumeration of sphere placements x search modes x boundaries (detection) and of every processing order of the pending-collision list (resolution) on the real ASan-built library",
        "text": "Detection: ~4400 placements of 2-6 spheres (lattice positions, +-velocities, radii patterns incl. zero, 1:10, and every insertion order of two big bodies whose tree cells are smaller than their radii) x {direct, line, tree, linetree} x {no boundary, periodic ghost ring}: "
                "a recording resolver must receive every pair the harness itself finds overlapping-and-approaching (line modes: swept paths within the sum of radii), images included. "
                "Resolution: 8 clusters (pair, unequal pair, chain, triangle, two pairs, crossed pairs, 4-chain, growing merger) x 4 search modes x keep_sorted x {merge, hardsphere} under EVERY permutation of the pending list that the internal shuffle can produce "
                "(one rand_seed per permutation, found by simulating the shuffle with libc's rand_r; 12k orders) over 3 steps: mass, momentum, centre of mass, particle identity (no hash lost, duplicated or foreign), N, kinetic energy at restitution 1; "
                "plus hard-sphere bounces against sheared images (momentum, separation afterwards). LINE and LINETREE detection also with a negative time step; fast pairs whose companions fly along (both bodies in small non-leaf cells at the end of the step).",
        "note": "Pairs within 1e-9 of the threshold are not demanded; extra pairs are allowed; order enumeration is capped at 720 (quick) / 5040 (thorough) permutations per case and the evidence lists capped cases.",
    },
    "C08": {
        "engine": "histmc", "category": "model_checking",
        "technique": "exhaustive enumeration of integrate() call histories over a lattice of integrators x step sizes x start times x target offsets x directions x exact_finish_time, with a recording heartbeat; exit conditions placed at every chosen step boundary",
        "text": "18 integrator variants (all types, safe/unsafe/keep modes, IAS15 with min_dt on an e=0.95 orbit) x dt{0.1,0.3,pi/10,7} x t0{0,1.7,-2.3,(1e6)} x every composition of the offsets {0,dt/3,dt,2dt,2.5dt,10dt,10dt(1+-1e-13)} into 1-2 (quick) / 3 (thorough) "
                "consecutive calls x both directions x exact_finish_time{0,1}: finishing time (1e-12 relative / less than one step past), monotone time at every heartbeat, step size restored, step count = ceil((T-t)/dt) in exact rational arithmetic, no-op on T=t (bitwise), "
                "split-equals-single-call bitwise. Exit conditions (escape, encounter, halting collision, user stop, no particles; with and without variational particles) are made true at boundary 0,1,2,5,12: the harness evaluates the predicate on the heartbeat-recorded exit-free trajectory and demands the stop at the first true boundary with the matching exception. Every call runs under a 20 s alarm. TRACE through a pericentre passage and a close encounter x 3 peri modes x both directions of time: returns, ends at the requested time, moves, agrees with IAS15 to its accuracy class.",
        "note": "One 3-body system; predicates for escape/encounter thresholds are chosen from the recorded trajectory; step counts not demanded within 1e-8 of a step boundary.",
    },
    "C09": {
        "engine": "histmc", "category": "model_checking",
        "technique": "exhaustive enumeration of call sequences (bounded steps and interposed operations) over the option lattice of every integrator with a deferred half step, on the real library, with bitwise and rounding-level oracles against pure-steps baselines",
        "text": "Every token string with 1..4 steps and at most 2 (quick) / 3 (thorough) interposed operations from {synchronize, synchronize twice, energy, orbits, copy-and-continue, save+load-and-continue, archive snapshot} is executed for every valid WHFast "
                "kernel x corrector x corrector2 x coordinates point (56), 18 SABA types, MERCURIUS switching functions, 18 EOS splittings and WHFast with variational particles / MEGNO / rescaling variations, in safe, unsafe and keep_unsynchronized mode (~280k runs quick). "
                "Safe and keep_unsynchronized modes must reproduce the pure-steps baseline bit for bit; unsafe mode must agree with safe mode to 1e-12 (1e-10 with the approximate second corrector; EOS: 20x its own truncation error); deferred modes synchronised at the end must agree with safe mode; sync;sync == sync.",
        "note": "One fixed 3-body system (plus test-particle variants in the thorough tier); tolerances are fixed constants with the observed maxima recorded in the evidence (3e-14 / 1.8e-12). WHFast512 not included.",
    },
    "C17": {
        "engine": "histmc", "category": "model_checking",
        "technique": "exhaustive enumeration of copy cases (save-point states x copy/pickle), of all interleavings of operations on source and copy up to a depth, and of single-field mutations of every descriptor row, on the real ASan-built library",
        "text": "Every save-point state (option-lattice representatives x test-particle settings, module variations incl. variational 1st/2nd order, MEGNO, tree, physically colliding spheres under every collision search mode x resolver; histories up to depth 2) is copied with copy() and pickle: "
                "the copy must compare equal both ways (reb_simulation_diff and ==) and evolve field-for-field identically for 6 steps; every interleaving over {step,edit,synchronize} x {source,copy} of depth 2 (quick) / 3 (thorough) must leave the other object's serialisation untouched, and the copy must run after the source is freed (ASan). "
                "For every row of the exported descriptor table two single-byte mutations are applied to a copy of each of 9 rich base states: reb_simulation_diff must report a difference iff the harness' own field-wise comparison of the two serialisations (pointers masked, wall-time dropped) finds one.",
        "note": "Rows never reached by an effective mutation are listed in the evidence (ri_whfast512.pjh needs the AVX512 build). IAS15+tree states are excluded (recorded C05 finding).",
    },
    "C07": {
        "engine": "crashmc", "category": "fault_enumeration",
        "technique": "exhaustive crash-point enumeration: every byte prefix of the strace-logged write(2) sequence of a 5-snapshot archive history, each image opened, compared and restarted on the real (ASan) library",
        "text": "For each (integrator, cadence mode) a 5-snapshot history (manual snapshots with a structural change / step cadence / interval cadence) is written once under strace; the logged lseek/write sequence (checked to reproduce the file byte for byte) "
                "yields every crash image, i.e. the file after every byte prefix of the modification sequence including the in-place patch of the previous trailer (~11k images per scenario; quick 4 scenarios, thorough 33). "
                "Each image is opened with Simulationarchive(), the C constructor and Simulation(file) in a worker where a dying process is an observation; an error is demanded iff no snapshot is complete, the exposed set must lie between "
                "'fully written' and 'content complete', every exposed snapshot must equal the uninterrupted archive's, and the run is restarted from the last exposed snapshot with the same cadence call and must reproduce the uninterrupted archive (count, times, contents). Second level: for one first-level image per (scenario, cut class, snapshots exposed) the restart is itself run under strace and every byte prefix of its writes gives a further crash image (quick: 20 restarts / 50k images of the first scenario; thorough: all scenarios), which must expose at least the snapshots readable before the restart, agree with the uninterrupted archive and restart to completion.",
        "note": "Process-crash fault model (completed write(2) calls persist, stdio buffer lost, one write cut at any byte); no block reordering. Second-level crashes during the repair-append are not yet enumerated.",
    },
    "C06": {
        "engine": "histmc", "category": "model_checking",
        "technique": "exhaustive enumeration of operation histories (depth-bounded) with a snapshot after every operation, all snapshots re-read after every append and compared with a reference list of serialised live states; cadence model checked against a lock-step reference run",
        "text": "Every sequence over a 21-operation structural alphabet (step, add, remove, remove-all, switch to 8 integrators, reset_integrator, change dt/softening, edit one particle, add variation, MEGNO, merging collision) "
                "up to depth 3 (quick) / 4 (thorough) from 2-4 start integrators is executed on the real ASan-built library with a manual snapshot after every operation; after EVERY append the archive is re-opened and nblobs, t[k] and every snapshot k "
                "are compared field-wise with the serialised live state recorded when snapshot k was taken. One long history crosses the 1024-entry index growth. Automatic cadence (interval dt/2.5dt/10dt, step 1/3) x 8 fixed-step integrators x leg patterns x both directions x manual snapshots "
                "is compared with the prescribed cadence and with a lock-step reference run. Histories that make arrays vanish (reset, remove_all, integrator switches) are also run on an archive whose first snapshot is taken after two steps; the cadence cases also re-issue the same cadence request between legs (documented not to disturb the cadence).",
        "note": "Histories outside documented usage (editing particles while variational particles exist) are filtered by a stated predicate; the function-pointer flag field and wall-time fields are not compared.",
    },
    "C05": {
        "engine": "histmc", "category": "model_checking",
        "technique": "exhaustive enumeration of save points (option lattice x operation histories up to a depth) on the real library, each restored and continued in lock-step with the original; plus exhaustive single-field lattice",
        "text": "For every point of the documented integrator option lattice (WHFast kernels x correctors x corrector2 x coordinates x safety modes, 18 SABA types, 81 EOS splittings, IAS15 modes, JANUS orders, BS, MERCURIUS L x r_crit, TRACE peri modes) "
                "x test-particle setting x direction, and module variations (compensated/tree gravity, direct/line/tree collisions, open/periodic boundary, variational 1st/2nd order, MEGNO), every history over "
                "{step, steps(3), synchronize, add, remove, edit-last-particle} up to depth 2 (quick) / 4 (thorough) is a save point. Each is saved via memory stream, file, pickle and as an appended delta, restored, and checked: "
                "save(load(save)) field-identical; every persisted scalar equal at its true DWARF offset; every user-settable member equal; original and restored continued 1,2,5 steps bit-identical in particles, t, dt and then in every persisted field. "
                "Independently every user-settable scalar member is set to a non-default value and round-tripped. Simulationarchive.getSimulation(t, mode snapshot/close) on archives started after 1 or 3 steps for every representative integrator setting that offers keep_unsynchronized or needs no synchronisation (and WHFast / IAS15 / BS / LEAPFROG with variational particles): the returned simulation continues bit for bit.",
        "note": "Callbacks re-attached by the harness; scratch members of p_jh records (ax..az, m, r, last_collision, hash) are masked because they are never initialised; with a tree, particle arrays are compared as multisets (tree re-orders by design).",
    },
    "C18": {
        "engine": "gridmc", "category": "exploration",
        "technique": "exhaustive enumeration of a finite space: every leaf member of every mirrored C structure (DWARF) against the ctypes field at the same offset, and every named option value",
        "text": "The space is finite and is enumerated completely: ~1700 leaf members of 25 structures (nested structs and arrays flattened) taken from the DWARF of a -g build of the working tree are "
                "compared by offset, size, kind (float / signed / unsigned / pointer / function pointer) and normalised name with the ctypes field at the same offset; every key of every option dictionary "
                "(integrator, gravity, collision, boundary, coordinates, kernel, SABA type, EOS phi0/phi1, TRACE peri_mode) is set by name and the raw integer compared with the C enumerator of that name and read back; "
                "function-valued options are compared with the dlsym address.",
        "note": "Trusts gdb's rendering of gcc's DWARF and that -O0 -g and -O3 builds share the ABI layout; aliases for deliberately renamed members are listed in the check.",
    },
    "C14": {
        "engine": "histmc", "category": "model_checking",
        "technique": "explicit-state BFS over operation histories of the real (ASan-built) simulation object against a reference list model",
        "text": "Every history over the alphabet add / remove(index,keep_sorted) / remove(hash) / set-hash / lookup / remove-all / set N_active / update_tree|step "
                "up to depth 4 (quick) or 5 (thorough) is executed on the real library through both the C API and the Python container, in 10 configurations "
                "(IAS15, tree, MERCURIUS, TRACE, storage-growth prefill); after every transition the particle list, N_active and lookup results are compared with a list model, "
                "failed requests must leave the serialized state unchanged, and ASan/UBSan abort on any out-of-bounds access.",
        "note": "Bounded depth; hash alphabet of 4 values incl. zero and duplicates; N_active only demanded where documented; tree mode with N==1 unspecified.",
    },
}
