#!/usr/bin/env python3
"""Regenerate MANIFEST.json from the table below and validate it against the schema."""
import json, os, sys
VERIF = os.path.dirname(os.path.dirname(os.path.abspath(__file__)))
sys.path.insert(0, VERIF)
from tools.manifest_table import CHECKS, NOT_APPLICABLE, ENGINES, NOTES

props = [json.loads(l)["id"] for l in open(os.path.join(VERIF, "properties.jsonl"))]
checks = []
for pid in props:
    if pid not in CHECKS:
        continue
    c = CHECKS[pid]
    checks.append({
        "property_id": pid,
        "quick_cmd": "./check %s --tier quick" % pid,
        "thorough_cmd": "./check %s --tier thorough" % pid,
        "evidence_file": "/verif/evidence/%s.json" % pid,
        "replay_cmd_template": "./check %s --replay {path}" % pid,
        "engine": c["engine"],
        "level_claimed": {"category": c["category"], "text": c["text"], "design_ref": c.get("design_ref", "DESIGN.md §2 " + pid)},
        "level_note": c["note"],
        "technique": c["technique"],
    })
na = [{"property_id": p, "reason": NOT_APPLICABLE.get(p, "check not built yet in this round; planned in DESIGN.md §2")} for p in props if p not in CHECKS]
m = {
    "version": 1,
    "setup_cmd": "/opt/veriftools/pyvenv/bin/python mc/build.py rel asan",
    "hooks": {
        "guard": "REBOUND_VERIF",
        "enable": "no guarded source changes in /repo: checks rebuild librebound from /repo/src (mc/build.py) and observe it through the exported API, LD_PRELOAD interposition and strace only",
        "baseline_off_cmd": "/verif/tools/baseline.sh /repo",
        "source_commits": [],
        "add_only": True,
    },
    "engines": ENGINES,
    "checks": checks,
    "notes": NOTES,
    "not_applicable": na,
}
json.dump(m, open(os.path.join(VERIF, "MANIFEST.json"), "w"), indent=1)
try:
    import jsonschema
    jsonschema.validate(m, json.load(open("/root/.vp/MANIFEST.schema.json")))
    print("MANIFEST.json valid; %d checks, %d not_applicable" % (len(checks), len(na)))
except ImportError:
    print("written (jsonschema not available to validate)")
