#!/bin/sh
# tools/baseline.sh [dir]  -- build librebound for /venv's python in <dir> (default /repo) from its
# working tree and run the repository's pinned test suite there, comparing with BASELINE.json's stable_pass.
D="${1:-/repo}"
cd "$D" || exit 2
SUF=$(/venv/bin/python -c "import sysconfig;print(sysconfig.get_config_var('EXT_SUFFIX'))")
SRCS="rebound integrator_ias15 integrator_whfast integrator_whfast512 integrator_saba integrator_mercurius integrator_trace integrator_eos integrator_leapfrog integrator_bs integrator_janus integrator_sei integrator gravity server boundary display collision tools fmemopen rotations derivatives tree particle binarydiff output input simulationarchive transformations"
O=$(mktemp -d /var/tmp/vbl.XXXXXX)
for s in $SRCS; do echo $s; done | xargs -P16 -I{} gcc -c -O3 -std=c99 -fstrict-aliasing -Wno-unknown-pragmas -w -DGITHASH=verif -DLIBREBOUND -D_GNU_SOURCE -DSERVER -fPIC -Isrc src/{}.c -o $O/{}.o || { rm -rf $O; echo BUILD-FAILED; exit 3; }
gcc -shared $O/*.o -lm -lrt -lpthread -o "librebound$SUF" || { rm -rf $O; echo LINK-FAILED; exit 3; }
rm -rf $O
J=$(mktemp /var/tmp/vbl.XXXXXX.xml)
REBOUND_VERIF= /venv/bin/python -m pytest -q -p no:cacheprovider --timeout=900 --continue-on-collection-errors --junitxml=$J >/dev/null 2>&1
/venv/bin/python - "$J" <<'P'
import sys, json, xml.etree.ElementTree as ET
base=set(json.load(open('/root/.vp/BASELINE.json'))['stable_pass'])
t=ET.parse(sys.argv[1]); ok=set(); bad=set()
for tc in t.iter('testcase'):
    name=tc.get('classname')+'::'+tc.get('name')
    if any(c.tag in ('failure','error','skipped') for c in tc): bad.add(name)
    else: ok.add(name)
miss=sorted(base-ok)
print("baseline stable_pass=%d passed_now=%d missing=%d"%(len(base),len(ok&base),len(miss)))
for m in miss[:40]: print("  NOT-PASSING", m)
sys.exit(1 if miss else 0)
P
rc=$?
rm -f $J
# by-products of the tests themselves (untracked)
for f in rebound.html test.pickle test.sa; do git -C "$D" ls-files --error-unmatch "$f" >/dev/null 2>&1 || rm -f "$D/$f"; done
exit $rc
