#!/opt/veriftools/pyvenv/bin/python
"""tools/gen_design.py -- assemble DESIGN.md from design_head.md, generated sections 2, 3, 5 and design_tail.md."""
import json, os, sys, subprocess
V = "/verif"
sys.path.insert(0, os.path.join(V, "tools"))
import manifest_table as mt   # noqa
props = {}
for ln in open(os.path.join(V, "properties.jsonl")):
    d = json.loads(ln)
    props[d["id"]] = d
kf = json.load(open(os.path.join(V, "known_findings.json")))
try:
    matrix = json.load(open(os.path.join(V, "seeded", "matrix.json")))
except Exception:
    matrix = {}
out = [open(os.path.join(V, "tools", "design_head.md")).read().rstrip(), ""]
out.append("## 2. Per property: what is enumerated, the oracle, the bounds\n")
out.append("`quick` is the tier to run on every change (all 20 together: about 4 minutes on 16 cores), `thorough` the deepest exploration built. Counts are those of the last run (evidence files).\n")
for pid in sorted(mt.CHECKS):
    c = mt.CHECKS[pid]
    out.append("### %s -- %s\n" % (pid, props[pid]["title"]))
    out.append("*Engine* `%s`, level *%s*.  *Technique:* %s.\n" % (c["engine"], c["category"], c["technique"]))
    out.append("*Explored:* %s\n" % c["text"])
    out.append("*Note / not reached:* %s\n" % c["note"])
    try:
        ev = json.load(open(os.path.join(V, "evidence", pid + ".json")))
        cov = ev.get("coverage", {})
        keys = [k for k in ("states", "transitions", "evaluations", "distinct_nontrivial", "schedules", "histories", "lattice_runs", "trajectory_cases", "constructor_cases") if k in cov]
        out.append("*Last run (%s tier):* %s; wall %.0f s.\n" % (ev.get("tier", "?"), ", ".join("%s=%s" % (k, cov[k]) for k in keys), ev.get("wall_seconds", ev.get("wall_s", 0)) or 0))
    except Exception:
        pass
    fnd = [f for f in kf["findings"] if f["property"] == pid]
    if fnd:
        out.append("*Recorded findings printed as KNOWN-FINDING:* " + "; ".join("`%s`" % f["signature"] for f in fnd) + " (section 3).\n")
out.append("## 3. Defects found\n")
out.append("### 3.1 Repaired in /repo (one `fix:` commit each, the 873 pinned tests pass with every one of them)\n")
log = subprocess.run(["git", "-C", "/repo", "log", "--format=%h %s", "--reverse"], stdout=subprocess.PIPE).stdout.decode().splitlines()
fixes = [l for l in log if l.split(" ", 1)[1].startswith("fix:")]
out.append("%d commits, oldest first:\n" % len(fixes))
for l in fixes:
    out.append("* `%s` %s" % tuple(l.split(" ", 1)))
out.append("")
out.append("What failed before each repair (the `fixed:` entries of `known_findings.json`; they suppress nothing -- the check reports the violation again if it returns):\n")
for f in kf["fixed"]:
    out.append("* " + f.replace("fixed: ", "", 1))
out.append("")
out.append("### 3.2 Recorded, not repaired (`known_findings.json`, printed as KNOWN-FINDING, exit 0)\n")
out.append("| property | signature | what fails | why not repaired |\n|---|---|---|---|")
for f in kf["findings"]:
    out.append("| %s | `%s` | %s | %s |" % (f["property"], f["signature"], f["what"].replace("|", "/"), f.get("why_not_fixed", "").replace("|", "/")))
out.append("")
out.append("## 5. Seeded changes: which check catches which change\n")
out.append("Ids <P>-1..3 come from the first wave of sub-agents (all properties), <P>-4..6 from the second to fifth waves and <P>-7..9 from the sixth (sixteen properties); every property has six to nine. Each change compiles and passes the 873 pinned tests (`seeded/<id>/meta.json`: summary, what it needs to manifest, demo). `tools/mutant_matrix.py` applied each to /repo, ran the quick tier of the property's check and reverted. \"signatures\" are the first violation signatures printed.\n")
out.append("| change | what was changed | outcome | first signatures |\n|---|---|---|---|")
for mid in sorted(matrix):
    m = matrix[mid]
    try:
        meta = json.load(open(os.path.join(V, "seeded", mid, "meta.json")))
    except Exception:
        meta = {}
    summ = (meta.get("summary") or "").replace("|", "/").replace("\n", " ")
    if len(summ) > 260:
        summ = summ[:257] + "..."
    if not m.get("applies", True):
        oc = "patch no longer applies"
    elif m.get("detected"):
        oc = "**caught** by %s (%d violations)" % ("+".join(m.get("detected_by") or [mid.split("-")[0]]), m.get("violations", 0))
    else:
        oc = meta.get("status_note", "not caught")
    out.append("| %s | %s | %s | %s |" % (mid, summ, oc, ", ".join("`%s`" % s for s in m.get("signatures", [])[:3])))
out.append("")
out.append(open(os.path.join(V, "tools", "design_tail.md")).read().rstrip())
out.append("")
txt = "\n".join(out)
# order sections 0,1,2,3,4,5,6: the tail holds 4 and 6, section 5 is generated -> move section 4 before 5
i4 = txt.index("## 4. False alarms")
i6 = txt.index("## 6. What is deliberately")
i5 = txt.index("## 5. Seeded changes")
sec4 = txt[i4:i6]
txt = txt[:i5] + sec4 + txt[i5:i4] + txt[i6:]
open(os.path.join(V, "DESIGN.md"), "w").write(txt)
print("DESIGN.md written: %d lines" % txt.count("\n"))
