#!/bin/sh
# tools/try_mutant.sh <patch.diff> <ID> [tier]  -- apply to /repo, run the check, always revert
P="$1"; ID="$2"; TIER="${3:-quick}"
cd /repo || exit 2
if [ -n "$(git status --porcelain --untracked-files=no)" ]; then echo "/repo not clean"; exit 2; fi
git apply "$P" || { echo "patch does not apply"; exit 2; }
cd /verif
./check "$ID" --tier "$TIER" > /var/tmp/mutant_out.$$ 2>&1
rc=$?
git -C /repo checkout -- .
grep -E "^VIOLATION|^KNOWN|tier=" /var/tmp/mutant_out.$$ | cut -c1-260 | head -12
grep -A2 "^VIOLATION" /var/tmp/mutant_out.$$ | grep "what:" | cut -c1-300 | head -5
rm -f /var/tmp/mutant_out.$$
echo "exit=$rc"
