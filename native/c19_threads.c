/* C19 harness: independent simulations in concurrent threads vs one after another.
 * usage: c19_threads <mode> <rounds> <dir>    mode: seq | par
 * prints "RESULT <workload> <round> <fnv64 of final state>" */
#define _GNU_SOURCE
#include <stdio.h>
#include <stdlib.h>
#include <string.h>
#include <stdint.h>
#include <pthread.h>
#include <unistd.h>
#include "rebound.h"

#define NW 16
static const char* dir;
static pthread_barrier_t barrier;
static uint64_t results[NW][64];
static int rounds;

static uint64_t fnv(const void* p, size_t n, uint64_t h){
    const unsigned char* c = p;
    for (size_t i=0;i<n;i++){ h ^= c[i]; h *= 1099511628211ULL; }
    return h;
}

static void setup(struct reb_simulation* r, int w){
    reb_simulation_add_fmt(r, "m", 1.0);
    reb_simulation_add_fmt(r, "m a e inc omega f", 1e-3, 1.0, 0.1, 0.05, 1.1, 0.4 + 0.01*w);
    reb_simulation_add_fmt(r, "m a e inc Omega f", 3e-4, 1.9, 0.05, 0.1, 2.0, 2.5);
    if (w % 2) reb_simulation_add_fmt(r, "m a e f", 1e-5, 3.3 + 0.1*w, 0.02, 1.0);
    reb_simulation_move_to_com(r);
    r->dt = 0.31;
    r->rand_seed = 17 + w;
    switch (w){
        case 0: r->integrator = REB_INTEGRATOR_IAS15; break;
        case 1: r->integrator = REB_INTEGRATOR_WHFAST; break;
        case 2: r->integrator = REB_INTEGRATOR_WHFAST; r->ri_whfast.safe_mode = 0; r->ri_whfast.corrector = 11; break;
        case 3: r->integrator = REB_INTEGRATOR_WHFAST; r->ri_whfast.safe_mode = 0; r->ri_whfast.keep_unsynchronized = 1; break;
        case 4: r->integrator = REB_INTEGRATOR_WHFAST; r->ri_whfast.coordinates = REB_WHFAST_COORDINATES_DEMOCRATICHELIOCENTRIC; break;
        case 5: r->integrator = REB_INTEGRATOR_WHFAST; r->ri_whfast.kernel = REB_WHFAST_KERNEL_LAZY; r->ri_whfast.corrector = 17; break;
        case 6: r->integrator = REB_INTEGRATOR_SABA; r->ri_saba.safe_mode = 0; r->ri_saba.keep_unsynchronized = 1; break;
        case 7: r->integrator = REB_INTEGRATOR_EOS; r->ri_eos.phi0 = REB_EOS_PMLF4; r->ri_eos.phi1 = REB_EOS_LF4; break;
        case 8: r->integrator = REB_INTEGRATOR_MERCURIUS; break;
        case 9: r->integrator = REB_INTEGRATOR_TRACE; break;
        case 10: r->integrator = REB_INTEGRATOR_BS; break;
        case 11: r->integrator = REB_INTEGRATOR_LEAPFROG; break;
        case 12: r->integrator = REB_INTEGRATOR_JANUS; r->ri_janus.order = 4; r->ri_janus.scale_pos = 1e-14; r->ri_janus.scale_vel = 1e-14; break;
        case 13: r->integrator = REB_INTEGRATOR_IAS15; break;     /* with MEGNO and random sampling */
        case 14: r->integrator = REB_INTEGRATOR_WHFAST; r->ri_whfast.safe_mode = 0; r->ri_whfast.keep_unsynchronized = 1; r->ri_whfast.corrector = 5; break;
        case 15: r->integrator = REB_INTEGRATOR_SABA; r->ri_saba.type = REB_SABA_CL_4; r->ri_saba.safe_mode = 0; r->ri_saba.keep_unsynchronized = 1; break;
    }
}

static uint64_t workload(int w, int round){
    char fn[512];
    snprintf(fn, sizeof fn, "%s/c19_%d_%d_%d.bin", dir, (int)getpid(), w, round);
    struct reb_simulation* r = reb_simulation_create();
    setup(r, w);
    if (w == 13){
        reb_simulation_init_megno_seed(r, 5);
        double x = reb_random_normal(r, 1.0) + reb_random_uniform(r, 0., 1.) + reb_random_rayleigh(r, 1.) + reb_random_powerlaw(r, 1., 2., -1.5);
        r->particles[1].x += 1e-9*x;
    }
    reb_simulation_integrate(r, 30.0);
    for (int k=0;k<20;k++){ reb_simulation_steps(r, 3); reb_simulation_synchronize(r); }     /* outputs in the deferred-synchronisation modes */
    struct reb_simulation* c = reb_simulation_copy(r);
    remove(fn);
    reb_simulation_save_to_file(c, fn);
    reb_simulation_free(c);
    struct reb_simulation* l = reb_simulation_create_from_file(fn, -1);
    remove(fn);
    reb_simulation_integrate(l, 75.0);
    reb_simulation_integrate(r, 75.0);
    reb_simulation_synchronize(l);
    reb_simulation_synchronize(r);
    uint64_t h = 1469598103934665603ULL;
    for (unsigned int i=0;i<l->N;i++){
        h = fnv(&l->particles[i], 6*sizeof(double), h);
        h = fnv(&l->particles[i].m, sizeof(double), h);
        h = fnv(&r->particles[i], 6*sizeof(double), h);
    }
    h = fnv(&l->t, sizeof(double), h);
    if (w == 13){ double Y = reb_simulation_megno(r); h = fnv(&Y, sizeof(double), h); }
    double e = reb_simulation_energy(l);
    h = fnv(&e, sizeof(double), h);
    reb_simulation_free(l);
    reb_simulation_free(r);
    return h;
}

static void* thread_main(void* arg){
    int w = (int)(intptr_t)arg;
    for (int k=0;k<rounds;k++){
        pthread_barrier_wait(&barrier);
        results[w][k] = workload(w, k);
    }
    return NULL;
}

int main(int argc, char** argv){
    if (argc < 4) return 2;
    rounds = atoi(argv[2]);
    if (rounds > 64) rounds = 64;
    dir = argv[3];
    if (!strcmp(argv[1], "seq")){
        for (int k=0;k<rounds;k++) for (int w=0;w<NW;w++) results[w][k] = workload(w, k);
    }else{
        pthread_t th[NW];
        pthread_barrier_init(&barrier, NULL, NW);
        for (int w=0;w<NW;w++) pthread_create(&th[w], NULL, thread_main, (void*)(intptr_t)w);
        for (int w=0;w<NW;w++) pthread_join(th[w], NULL);
    }
    for (int w=0;w<NW;w++) for (int k=0;k<rounds;k++) printf("RESULT %d %d %016llx\n", w, k, (unsigned long long)results[w][k]);
    return 0;
}
