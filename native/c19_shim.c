/* LD_PRELOAD shim for C19: makes the integration thread stop at a chosen event (entry/exit of the calls below), so that a
 * controller can decide what the web-server thread does while the integration thread stands exactly there.
 * Nothing happens unless a thread has registered itself with shim_register_main(). */
#define _GNU_SOURCE
#include <dlfcn.h>
#include <pthread.h>
#include <unistd.h>
#include <string.h>

#define MAXEV 8192
volatile long shim_event = 0;       /* number of events seen so far in the registered thread */
volatile long shim_arm = -1;        /* event index at which to stop (-1: never) */
volatile int shim_reached = 0;
volatile int shim_release = 0;
volatile int shim_has_main = 0;
static pthread_t shim_main;
int shim_log[MAXEV];

enum { P_CHECK_EXIT = 0, P_SYNC, P_STEP, P_KEPLER, P_LOCK, P_UNLOCK, P_SAVE, P_COM, P_NPOINTS };

void shim_register_main(void){ shim_main = pthread_self(); shim_event = 0; shim_reached = 0; shim_release = 0; shim_has_main = 1; }
void shim_unregister(void){ shim_has_main = 0; }
void shim_set_arm(long n){ shim_arm = n; }
long shim_get_event(void){ return shim_event; }
int shim_get_reached(void){ return shim_reached; }
void shim_do_release(void){ shim_release = 1; }
int shim_get_log(long i){ return (i >= 0 && i < MAXEV) ? shim_log[i] : -1; }

static void hook(int id){
    if (!shim_has_main || !pthread_equal(pthread_self(), shim_main)) return;
    long n = shim_event;
    if (n < MAXEV) shim_log[n] = id;
    shim_event = n + 1;
    if (n == shim_arm){
        shim_reached = 1;
        while (!shim_release) usleep(100);
        shim_release = 0;
        shim_reached = 0;
    }
}

/* librebound is dlopen()ed by ctypes with RTLD_LOCAL: RTLD_NEXT cannot see it, the controller passes the addresses in */
static void* shim_real[16];
void shim_set_real(int point, void* p){ shim_real[point] = p; }
#define REAL(name, point) __typeof__(&name) real = (__typeof__(&name))shim_real[point]

struct reb_simulation;
int reb_check_exit(struct reb_simulation* r, const double tmax, double* last_full_dt){
    REAL(reb_check_exit, P_CHECK_EXIT);
    hook(2*P_CHECK_EXIT); int v = real(r, tmax, last_full_dt); hook(2*P_CHECK_EXIT+1); return v;
}
void reb_simulation_synchronize(struct reb_simulation* r){
    REAL(reb_simulation_synchronize, P_SYNC);
    hook(2*P_SYNC); real(r); hook(2*P_SYNC+1);
}
void reb_simulation_step(struct reb_simulation* r){
    REAL(reb_simulation_step, P_STEP);
    hook(2*P_STEP); real(r); hook(2*P_STEP+1);
}
void reb_whfast_kepler_step(const struct reb_simulation* r, const double dt){
    REAL(reb_whfast_kepler_step, P_KEPLER);
    hook(2*P_KEPLER); real(r, dt); hook(2*P_KEPLER+1);
}
void reb_whfast_com_step(const struct reb_simulation* r, const double dt){
    REAL(reb_whfast_com_step, P_COM);
    hook(2*P_COM); real(r, dt); hook(2*P_COM+1);
}
/* glibc exports the implementation under these names: no dlsym (which takes locks itself) on this path */
extern int __pthread_mutex_lock(pthread_mutex_t* m);
extern int __pthread_mutex_unlock(pthread_mutex_t* m);
static volatile pthread_mutex_t* shim_mutex = NULL;     /* only the server's mutex is an event */
void shim_set_mutex(void* m){ shim_mutex = (pthread_mutex_t*)m; }
int pthread_mutex_lock(pthread_mutex_t* m){
    if (!shim_has_main || m != shim_mutex) return __pthread_mutex_lock(m);
    hook(2*P_LOCK); int v = __pthread_mutex_lock(m); hook(2*P_LOCK+1); return v;
}
int pthread_mutex_unlock(pthread_mutex_t* m){
    if (!shim_has_main || m != shim_mutex) return __pthread_mutex_unlock(m);
    hook(2*P_UNLOCK); int v = __pthread_mutex_unlock(m); hook(2*P_UNLOCK+1); return v;
}

/* a close() of a descriptor that is not open (EBADF) while a controller is watching: the second close of a double close.
 * (Between the two closes another thread may have been given the same number for a file of its own, which the second close
 * then takes away from it -- the harness saw exactly that as EBADF in its own open().write().) */
#include <errno.h>
extern int __close(int fd);
volatile long shim_badclose = 0;
volatile int shim_watch_close = 0;
void shim_set_watch_close(int on){ shim_watch_close = on; if (on) shim_badclose = 0; }
long shim_get_badclose(void){ return shim_badclose; }
int close(int fd){
    int v = __close(fd);
    if (v < 0 && errno == EBADF && shim_watch_close) shim_badclose++;
    return v;
}
