"""Archive writer scenarios for C07. Usable as a script (under strace) and as a module (restart inside the checker).
   usage: c07_writer.py <libdir> <integ> <mode> <file>"""
import sys
import warnings

NSNAP = 5
DT = 0.125


def make(rebound, integ):
    sim = rebound.Simulation()
    sim.add(m=1.)
    sim.add(m=1e-3, x=1., vy=1., z=0.01)
    sim.add(m=3e-4, x=-1.9, vy=-0.72, z=-0.02)
    sim.move_to_com()
    sim.dt = DT
    sim.rand_seed = 777
    if integ == "whfast_unsafe":
        sim.integrator = "whfast"
        sim.ri_whfast.safe_mode = 0
        sim.ri_whfast.keep_unsynchronized = 1
    elif integ == "saba_unsafe":
        sim.integrator = "saba"
        sim.ri_saba.safe_mode = 0
        sim.ri_saba.keep_unsynchronized = 1
    else:
        sim.integrator = integ
    return sim


def structural(sim):
    sim.synchronize()
    sim.add(m=1e-5, x=4.1, vy=0.49, z=0.03)


def run(rebound, integ, mode, fn, resume=None):
    """resume=None: fresh run. resume=j (manual mode): the program continues right after snapshot j had been written.
       In automatic modes a restart re-opens the last snapshot of the file and calls the same cadence function."""
    warnings.simplefilter("ignore")
    if mode == "manual":
        if resume is None:
            sim = make(rebound, integ)
            start = 0
        else:
            sim = rebound.Simulation(fn)      # last readable snapshot
            start = resume
        for k in range(start, NSNAP):
            if not (resume is not None and k == start):
                sim.save_to_file(fn)
            if k == 2 and mode == "manual" and not integ.endswith("_unsafe"):
                structural(sim)
            sim.steps(2)
        return sim
    T = DT * 2 * (NSNAP - 1)
    if resume is None:
        sim = make(rebound, integ)
    else:
        sim = rebound.Simulation(fn)
    if mode == "step":
        sim.save_to_file(fn, step=2)
    else:
        sim.save_to_file(fn, interval=2 * DT)
    sim.integrate(T, exact_finish_time=0)
    return sim


if __name__ == "__main__":
    sys.path.insert(0, sys.argv[1])
    import rebound
    run(rebound, sys.argv[2], sys.argv[3], sys.argv[4], resume=(int(sys.argv[5]) if len(sys.argv) > 5 else None))
