"""Build librebound (and the Python package next to it) from /repo's current working tree.

Variants:
  rel   -- flags of setup.py (-O3 ...), used wherever bits matter
  asan  -- -O1 -g -fsanitize=address,undefined (must be loaded with LD_PRELOAD=libasan)
  avx   -- rel + -march=native -DAVX512 (only when the CPU has avx512f)
  tsan  -- clang -fsanitize=thread
  dbg   -- -O0 -g (for gdb ptype /o DWARF layout)
Every build lives in /verif/.cache/<key>/ where key = sha256(sources + python files + flags),
so an edit to /repo always produces a fresh build.
"""
import hashlib
import os
import shutil
import subprocess
import sys
import sysconfig
import time

REPO = os.environ.get("VERIF_REPO", "/repo")
VERIF = os.path.dirname(os.path.dirname(os.path.abspath(__file__)))
CACHE = os.path.join(VERIF, ".cache")
SUFFIX = sysconfig.get_config_var("EXT_SUFFIX") or ".so"

SOURCES = [
    "rebound.c", "integrator_ias15.c", "integrator_whfast.c", "integrator_whfast512.c",
    "integrator_saba.c", "integrator_mercurius.c", "integrator_trace.c", "integrator_eos.c",
    "integrator_leapfrog.c", "integrator_bs.c", "integrator_janus.c", "integrator_sei.c",
    "integrator.c", "gravity.c", "server.c", "boundary.c", "display.c", "collision.c",
    "tools.c", "fmemopen.c", "rotations.c", "derivatives.c", "tree.c", "particle.c",
    "binarydiff.c", "output.c", "input.c", "simulationarchive.c", "transformations.c",
]

BASE = ["-std=c99", "-fstrict-aliasing", "-Wno-unknown-pragmas", "-w", "-Werror=implicit-function-declaration", "-DLIBREBOUND", "-D_GNU_SOURCE",
        "-DSERVER", "-fPIC", "-DGITHASH=verif"]
VARIANTS = {
    "rel": ("gcc", BASE + ["-O3"], []),
    "asan": ("gcc", BASE + ["-O1", "-g", "-fno-omit-frame-pointer", "-fsanitize=address,undefined",
                            "-fno-sanitize-recover=undefined", "-fno-sanitize=float-divide-by-zero,float-cast-overflow,alignment,shift,signed-integer-overflow,nonnull-attribute,returns-nonnull-attribute"],
             ["-fsanitize=address,undefined"]),
    "avx": ("gcc", BASE + ["-O3", "-march=native", "-DAVX512"], []),
    "tsan": ("clang", BASE + ["-O1", "-g", "-fsanitize=thread"], ["-fsanitize=thread"]),
    "dbg": ("gcc", BASE + ["-O0", "-g"], []),
    "gcov": ("gcc", BASE + ["-O0", "--coverage"], ["--coverage"]),
}


def have_avx512():
    try:
        return "avx512f" in open("/proc/cpuinfo").read()
    except OSError:
        return False


def _tree_hash(variant):
    h = hashlib.sha256()
    h.update(variant.encode())
    h.update(repr(VARIANTS[variant]).encode())
    h.update(SUFFIX.encode())
    srcdir = os.path.join(REPO, "src")
    for fn in sorted(os.listdir(srcdir)):
        if fn.endswith((".c", ".h")):
            h.update(fn.encode())
            with open(os.path.join(srcdir, fn), "rb") as f:
                h.update(f.read())
    pydir = os.path.join(REPO, "rebound")
    for root, dirs, files in os.walk(pydir):
        dirs.sort()
        if "tests" in dirs:
            dirs.remove("tests")
        if "__pycache__" in dirs:
            dirs.remove("__pycache__")
        for fn in sorted(files):
            if fn.endswith(".py"):
                p = os.path.join(root, fn)
                h.update(os.path.relpath(p, pydir).encode())
                with open(p, "rb") as f:
                    h.update(f.read())
    return h.hexdigest()[:20]


def _prune(keep=40):
    try:
        ents = [os.path.join(CACHE, d) for d in os.listdir(CACHE) if not d.startswith("tmp") and d != "native"]
    except OSError:
        return
    ents.sort(key=lambda p: os.path.getmtime(p), reverse=True)
    for p in ents[keep:]:
        shutil.rmtree(p, ignore_errors=True)


def build(variant="rel", verbose=False):
    """Return directory D such that sys.path.insert(0, D); import rebound loads the fresh build."""
    if variant == "avx" and not have_avx512():
        return None
    key = variant + "-" + _tree_hash(variant)
    out = os.path.join(CACHE, key)
    lib = os.path.join(out, "librebound" + SUFFIX)
    if os.path.exists(os.path.join(out, ".ok")) and not os.environ.get("VERIF_NO_CACHE"):
        os.utime(out, None)
        return out
    os.makedirs(CACHE, exist_ok=True)
    tmp = os.path.join(CACHE, "tmp-%s-%d" % (key, os.getpid()))
    shutil.rmtree(tmp, ignore_errors=True)
    os.makedirs(os.path.join(tmp, "obj"))
    cc, cflags, ldflags = VARIANTS[variant]
    t0 = time.time()
    procs = []
    for s in SOURCES:
        o = os.path.join(tmp, "obj", s[:-2] + ".o")
        cmd = [cc] + cflags + ["-I", os.path.join(REPO, "src"), "-c", os.path.join(REPO, "src", s), "-o", o]
        procs.append((s, subprocess.Popen(cmd, stdout=subprocess.PIPE, stderr=subprocess.STDOUT)))
    objs = []
    for s, p in procs:
        o, _ = p.communicate()
        if p.returncode != 0:
            sys.stderr.write(o.decode(errors="replace"))
            shutil.rmtree(tmp, ignore_errors=True)
            raise RuntimeError("compile failed: " + s)
        objs.append(os.path.join(tmp, "obj", s[:-2] + ".o"))
    cmd = [cc, "-shared"] + ldflags + objs + ["-lm", "-lrt", "-lpthread", "-o", os.path.join(tmp, "librebound" + SUFFIX)]
    r = subprocess.run(cmd, stdout=subprocess.PIPE, stderr=subprocess.STDOUT)
    if r.returncode != 0:
        sys.stderr.write(r.stdout.decode(errors="replace"))
        shutil.rmtree(tmp, ignore_errors=True)
        raise RuntimeError("link failed")
    if variant not in ("dbg", "gcov"):
        shutil.rmtree(os.path.join(tmp, "obj"))
    # python package
    shutil.copytree(os.path.join(REPO, "rebound"), os.path.join(tmp, "rebound"),
                    ignore=shutil.ignore_patterns("tests", "__pycache__", "*.pyc"))
    # headers (for native helpers compiled against this tree)
    os.makedirs(os.path.join(tmp, "include"))
    for fn in os.listdir(os.path.join(REPO, "src")):
        if fn.endswith(".h"):
            shutil.copy(os.path.join(REPO, "src", fn), os.path.join(tmp, "include", fn))
    # dummy rebound.html so the server never tries to download it
    open(os.path.join(tmp, ".ok"), "w").write("%.2f\n" % (time.time() - t0))
    try:
        os.rename(tmp, out)
    except OSError:
        shutil.rmtree(tmp, ignore_errors=True)  # lost a race with another builder
    if verbose:
        sys.stderr.write("built %s in %.1fs\n" % (key, time.time() - t0))
    _prune()
    return out


def build_native(libdir, name, source, extra=(), cc="gcc", link_rebound=True):
    """Compile /verif/native/<source> into <libdir>/<name>.so against the headers of that build."""
    src = os.path.join(VERIF, "native", source)
    h = hashlib.sha256(open(src, "rb").read() + repr(extra).encode()).hexdigest()[:12]
    out = os.path.join(libdir, "%s-%s.so" % (name, h))
    if os.path.exists(out):
        return out
    cmd = [cc, "-O1", "-g", "-fPIC", "-shared", "-std=gnu99", "-D_GNU_SOURCE", "-w", "-I", os.path.join(libdir, "include"),
           src, "-o", out + ".tmp%d" % os.getpid()] + list(extra)
    if link_rebound:
        cmd += ["-L", libdir, "-l:librebound" + SUFFIX, "-Wl,-rpath," + libdir]
    cmd += ["-lm", "-ldl", "-lpthread"]
    r = subprocess.run(cmd, stdout=subprocess.PIPE, stderr=subprocess.STDOUT)
    if r.returncode != 0:
        sys.stderr.write(r.stdout.decode(errors="replace"))
        raise RuntimeError("native build failed: " + source)
    os.rename(out + ".tmp%d" % os.getpid(), out)
    return out


def build_shim(source):
    """Compile /verif/native/<source> (an LD_PRELOAD shim that needs nothing from librebound) into the cache."""
    src = os.path.join(VERIF, "native", source)
    h = hashlib.sha256(open(src, "rb").read()).hexdigest()[:12]
    d = os.path.join(CACHE, "native")
    os.makedirs(d, exist_ok=True)
    out = os.path.join(d, "%s-%s.so" % (source[:-2], h))
    if not os.path.exists(out):
        tmp = out + ".tmp%d" % os.getpid()
        r = subprocess.run(["gcc", "-O1", "-g", "-fPIC", "-shared", "-std=gnu99", "-w", src, "-o", tmp, "-ldl", "-lpthread"], stdout=subprocess.PIPE, stderr=subprocess.STDOUT)
        if r.returncode != 0:
            sys.stderr.write(r.stdout.decode(errors="replace"))
            raise RuntimeError("shim build failed: " + source)
        os.rename(tmp, out)
    return out


def build_exe(libdir, source, cc="gcc", extra=()):
    """Compile /verif/native/<source> into an executable linked against the librebound in libdir."""
    src = os.path.join(VERIF, "native", source)
    h = hashlib.sha256(open(src, "rb").read() + repr((cc, extra)).encode()).hexdigest()[:12]
    out = os.path.join(libdir, "%s-%s.exe" % (source[:-2], h))
    if not os.path.exists(out):
        tmp = out + ".tmp%d" % os.getpid()
        cmd = [cc, "-O1", "-g", "-std=gnu99", "-D_GNU_SOURCE", "-w"] + list(extra) + ["-I", os.path.join(libdir, "include"), src, "-o", tmp,
               "-L", libdir, "-l:librebound" + SUFFIX, "-Wl,-rpath," + libdir, "-lm", "-lpthread"]
        r = subprocess.run(cmd, stdout=subprocess.PIPE, stderr=subprocess.STDOUT)
        if r.returncode != 0:
            sys.stderr.write(r.stdout.decode(errors="replace"))
            raise RuntimeError("native build failed: " + source)
        os.rename(tmp, out)
    return out


def asan_env():
    a = subprocess.check_output(["gcc", "-print-file-name=libasan.so"]).decode().strip()
    u = subprocess.check_output(["gcc", "-print-file-name=libubsan.so"]).decode().strip()
    env = dict(os.environ)
    env["LD_PRELOAD"] = a + ":" + u
    env["ASAN_OPTIONS"] = "detect_leaks=0:abort_on_error=1:allocator_may_return_null=1"
    env["UBSAN_OPTIONS"] = "halt_on_error=1:print_stacktrace=1"
    return env


if __name__ == "__main__":
    for v in (sys.argv[1:] or ["rel"]):
        print(build(v, verbose=True))
