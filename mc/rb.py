"""Helpers around the ctypes rebound package (imported by the caller after ctx.use())."""
import ctypes
import hashlib
import struct
import warnings
from ctypes import byref, c_char_p, c_size_t, c_int, c_uint32, c_double, c_void_p, POINTER, string_at

PART_SIZE = 128
# byte ranges of pointer members inside struct reb_particle (c, ap, sim)
PART_PTRS = [(96, 104), (112, 120), (120, 128)]
PARTICLE_FIELDS = {85: PART_SIZE, 104: PART_SIZE}  # field id -> element size with embedded pointers
VARCONFIG_ID = 86
VARCONFIG_SIZE = None  # resolved lazily from ctypes


def lib():
    import rebound
    return rebound.clibrebound


def stream(sim):
    """Raw bytes of reb_simulation_save_to_stream (NOTE: calls reb_integrator_init and may shrink ias15.N_allocated)."""
    cl = lib()
    buf = c_char_p()
    size = c_size_t()
    cl.reb_simulation_save_to_stream(byref(sim), byref(buf), byref(size))
    s = bytes(string_at(buf, size=size.value))
    cl.reb_simulation_output_free_stream(buf)
    return s


def parse(s, start=64):
    """-> list of (type, payload bytes) up to and excluding END; returns (fields, end_offset)."""
    out = []
    p = start
    n = len(s)
    while p + 16 <= n:
        t, = struct.unpack_from("<I", s, p)
        sz, = struct.unpack_from("<Q", s, p + 8)
        p += 16
        if t == 9999:
            return out, p
        out.append((t, s[p:p + sz]))
        p += sz
    return out, p


def mask_particles(b):
    b = bytearray(b)
    for o in range(0, len(b) - PART_SIZE + 1, PART_SIZE):
        for a, e in PART_PTRS:
            b[o + a:o + e] = b"\0" * (e - a)
    return bytes(b)


def varconfig_size():
    import rebound
    return ctypes.sizeof(rebound.Variation)


def mask_varconfig(b):
    import rebound
    sz = ctypes.sizeof(rebound.Variation)
    off = rebound.Variation._sim.offset
    b = bytearray(b)
    for o in range(0, len(b) - sz + 1, sz):
        b[o + off:o + off + 8] = b"\0" * 8
    return bytes(b)


WALLTIME_IDS = (126, 127)


def mask_scratch(b):
    """p_jh records: only x..vz and m carry state (ax..az are per-step scratch) by the integrators; r, last_collision and hash are
    whatever malloc left there"""
    b = bytearray(b)
    for o in range(0, len(b) - PART_SIZE + 1, PART_SIZE):
        b[o + 48:o + 72] = b"\0" * 24     # ax..az: recomputed from the inertial accelerations in every step
        b[o + 72:o + 96] = b"\0" * 24     # m (transformations take masses from the real particles), r, last_collision
        b[o + 104:o + 112] = b"\0" * 8
    return bytes(b)


def fields_masked(s, drop_walltime=True, sort_particles=False):
    """dict type -> payload with pointer members of particle-like records zeroed."""
    f, _ = parse(s)
    d = {}
    for t, b in f:
        if t in PARTICLE_FIELDS:
            b = mask_particles(b)
            if t == 104:
                b = mask_scratch(b)
            if t == 85 and sort_particles:
                b = b"".join(sorted(b[i:i + PART_SIZE] for i in range(0, len(b), PART_SIZE)))
        elif t == VARCONFIG_ID:
            b = mask_varconfig(b)
        elif t == 399:  # pjh0 = 4 particles
            b = mask_particles(b)
        if drop_walltime and t in WALLTIME_IDS:
            continue
        d[t] = b
    return d


def field_names():
    """type -> name from the exported descriptor table."""
    import rebound
    out = {}
    for fd in descriptors():
        out[fd["type"]] = fd["name"]
    return out


def descriptors():
    """the exported reb_binary_field_descriptor_list as a list of dicts (own walker, independent of the Python mirror)"""
    import rebound
    cl = rebound.clibrebound

    class FD(ctypes.Structure):
        _fields_ = [("type", ctypes.c_uint), ("dtype", ctypes.c_int), ("name", ctypes.c_char * 1024),
                    ("offset", ctypes.c_size_t), ("offset_N", ctypes.c_size_t), ("element_size", ctypes.c_size_t)]
    base = ctypes.addressof((FD * 1).in_dll(cl, "reb_binary_field_descriptor_list"))
    out = []
    i = 0
    while i < 2000:
        fd = FD.from_address(base + i * ctypes.sizeof(FD))
        out.append({"type": fd.type, "dtype": fd.dtype, "name": fd.name.decode("ascii", "replace"), "offset": fd.offset,
                    "offset_N": fd.offset_N, "element_size": fd.element_size})
        if fd.dtype == 13:
            break
        i += 1
    return out


def diff_fields(a, b, names=None):
    """a,b: dicts from fields_masked -> list of differing field names/ids"""
    out = []
    for t in sorted(set(a) | set(b)):
        if a.get(t) != b.get(t):
            out.append(names.get(t, str(t)) if names else t)
    return out


def hexd(*parts):
    h = hashlib.sha256()
    for p in parts:
        h.update(p if isinstance(p, (bytes, bytearray)) else repr(p).encode())
        h.update(b"\x1f")
    return h.hexdigest()[:24]


def particles_raw(sim):
    """bytes of the live particle array (N records), pointers masked"""
    n = sim.N
    if n == 0 or not sim._particles:
        return b""
    return mask_particles(string_at(ctypes.addressof(sim._particles.contents), n * PART_SIZE))


def drain_messages(sim):
    """-> list of (type, text) of pending messages, cleared"""
    cl = lib()
    cl.reb_simulation_get_next_message.restype = c_int
    buf = ctypes.create_string_buffer(c_int.in_dll(cl, "reb_max_messages_length").value)
    out = []
    while cl.reb_simulation_get_next_message(byref(sim), buf):
        m = buf.value.decode("ascii", "replace")
        out.append((m[0], m[1:]))
    return out


def quiet():
    warnings.simplefilter("ignore")


def bits(x):
    return struct.pack("<d", x)


def pstate(sim):
    """tuple of raw doubles for all particles (x..vz,m) for bit comparison"""
    return particles_raw(sim)
