"""The integrator option lattice and the system alphabet shared by several checks.

A configuration is a JSON-able dict:
  {"integ": name, "o": {option: value, ...}, "sys": "S3", "tp": 0|1|2, "dtsign": +1|-1, "dtfac": 1.0}
tp: 0 all particles active, 1 last body is a type-0 test particle (m=0), 2 last body is a type-1 test particle.
"""
import math

G_AU_YR = 39.476926421373


def kep2cart(mu, a, e, inc, Omega, omega, f):
    r = a * (1 - e * e) / (1 + e * math.cos(f))
    v0 = math.sqrt(mu / a / (1 - e * e))
    cO, sO, co, so, ci, si, cf, sf = math.cos(Omega), math.sin(Omega), math.cos(omega), math.sin(omega), math.cos(inc), math.sin(inc), math.cos(f), math.sin(f)
    x = r * (cO * (co * cf - so * sf) - sO * (so * cf + co * sf) * ci)
    y = r * (sO * (co * cf - so * sf) + cO * (so * cf + co * sf) * ci)
    z = r * (so * cf + co * sf) * si
    vx = v0 * ((e + cf) * (-ci * co * sO - cO * so) - sf * (co * cO - ci * so * sO))
    vy = v0 * ((e + cf) * (ci * co * cO - sO * so) - sf * (co * sO + ci * so * cO))
    vz = v0 * ((e + cf) * co * si - sf * si * so)
    return x, y, z, vx, vy, vz


# name -> (G, [(m, a, e, inc, Omega, omega, f)], inner period)
_SYS = {
    "S2": (1.0, [(1e-3, 1.0, 0.3, 0.0, 0.0, 0.4, 0.7)]),
    "S3": (1.0, [(1e-3, 1.0, 0.1, 0.05, 0.3, 1.1, 0.4), (3e-4, 1.9, 0.05, 0.1, 2.0, 0.2, 2.5)]),
    "S3t": (1.0, [(1e-3, 1.0, 0.1, 0.05, 0.3, 1.1, 0.4), (3e-4, 1.9, 0.05, 0.1, 2.0, 0.2, 2.5), (1e-9, 3.1, 0.08, 0.07, 4.0, 3.0, 5.0)]),
    "S4G": (G_AU_YR, [(9.5e-4, 5.2, 0.048, 0.022, 1.75, 0.25, 0.6), (2.9e-4, 9.58, 0.056, 0.043, 1.98, 1.6, 5.5), (4.4e-5, 19.2, 0.046, 0.013, 1.29, 1.69, 2.5)]),
    "S9": (1.0, [(1e-5 * (1 + k % 3), 1.0 * 1.45 ** k, 0.02 + 0.01 * (k % 4), 0.01 * (k % 5), 0.7 * k, 1.3 * k, 2.1 * k) for k in range(8)]),
}


def system(name):
    """-> (G, [ (m,x,y,z,vx,vy,vz) ... ]) in the centre-of-mass frame, star first; inner period"""
    G, pl = _SYS[name]
    bodies = [[1.0, 0, 0, 0, 0, 0, 0]]
    for (m, a, e, inc, Om, om, f) in pl:
        x, y, z, vx, vy, vz = kep2cart(G * (1.0 + m), a, e, inc, Om, om, f)
        bodies.append([m, x, y, z, vx, vy, vz])
    M = sum(b[0] for b in bodies)
    for k in range(1, 7):
        c = sum(b[0] * b[k] for b in bodies) / M
        for b in bodies:
            b[k] -= c
    a0 = pl[0][1]
    P = 2 * math.pi * math.sqrt(a0 ** 3 / (G * (1 + pl[0][0])))
    return G, bodies, P


# ------------------------------------------------------------------------------------------ option lattice
WH_CORR = [0, 3, 5, 7, 11, 17]
SABA_TYPES = ["1", "2", "3", "4", "cm1", "cm2", "cm3", "cm4", "cl1", "cl2", "cl3", "cl4", "10,4", "8,6,4", "10,6,4", "h8,4,4", "h8,6,4", "h10,6,4"]
EOS_TYPES = ["lf", "lf4", "lf6", "lf8", "lf4_2", "lf8_6_4", "plf7_6_4", "pmlf4", "pmlf6"]
SAFETY = [{"safe_mode": 1}, {"safe_mode": 0}, {"safe_mode": 0, "keep_unsynchronized": 1}]


def whfast_points():
    out = []
    for k in ("default", "modifiedkick", "composition", "lazy"):
        for c in WH_CORR:
            for c2 in (0, 1):
                out.append({"coordinates": "jacobi", "kernel": k, "corrector": c, "corrector2": c2})
    for c in WH_CORR:
        out.append({"coordinates": "barycentric", "kernel": "default", "corrector": c, "corrector2": 0})
    out.append({"coordinates": "democraticheliocentric", "kernel": "default", "corrector": 0, "corrector2": 0})
    out.append({"coordinates": "whds", "kernel": "default", "corrector": 0, "corrector2": 0})
    return out


def integrator_points(level="full", avx=False):
    """list of (integ, options) ; level 'full' = whole documented lattice, 'rep' = representatives"""
    P = []
    if level == "full":
        for w in whfast_points():
            for s in SAFETY:
                P.append(("whfast", dict(w, **s)))
        for t in SABA_TYPES:
            for s in SAFETY:
                P.append(("saba", dict({"type": t}, **s)))
        for p0 in EOS_TYPES:
            for p1 in EOS_TYPES:
                P.append(("eos", {"phi0": p0, "phi1": p1, "n": 2, "safe_mode": 1}))
        for p in EOS_TYPES:
            P.append(("eos", {"phi0": p, "phi1": "lf", "n": 2, "safe_mode": 0}))
            P.append(("eos", {"phi0": p, "phi1": "lf4", "n": 4, "safe_mode": 0}))
            P.append(("eos", {"phi0": "lf", "phi1": p, "n": 1, "safe_mode": 0}))
        for am in (0, 1, 2, 3):
            P.append(("ias15", {"adaptive_mode": am}))
            P.append(("ias15", {"adaptive_mode": am, "epsilon": 0.0}))
        P.append(("leapfrog", {}))
        for o in (2, 4, 6, 8, 10):
            for sc in (1e-16, 1e-12):
                P.append(("janus", {"order": o, "scale_pos": sc, "scale_vel": sc}))
            # the two grids are independent options: unequal spacings
            P.append(("janus", {"order": o, "scale_pos": 4e-16, "scale_vel": 1e-16}))
            P.append(("janus", {"order": o, "scale_pos": 1e-16, "scale_vel": 2e-16}))
        for eps in (1e-8, 1e-11):
            P.append(("bs", {"eps_rel": eps, "eps_abs": eps}))
        for L in ("mercury", "C4", "C5", "infinity"):
            for rc in (3.0, 5.0):
                for sm in (1, 0):
                    P.append(("mercurius", {"L": L, "r_crit_hill": rc, "safe_mode": sm}))
        for pm in ("PARTIAL_BS", "FULL_BS", "FULL_IAS15"):
            for sp in ("default", "none"):
                P.append(("trace", {"peri_mode": pm, "S_peri": sp}))
        if avx:
            for ns in (1, 2, 4):
                P.append(("whfast512", {"N_systems": ns}))
                P.append(("whfast512", {"N_systems": ns, "keep_unsynchronized": 1}))
    else:
        P += [("whfast", {"safe_mode": 1}), ("whfast", {"safe_mode": 0}), ("whfast", {"safe_mode": 0, "keep_unsynchronized": 1}),
              ("whfast", {"coordinates": "democraticheliocentric", "safe_mode": 0}), ("whfast", {"coordinates": "whds", "safe_mode": 1}),
              ("whfast", {"coordinates": "barycentric", "corrector": 5, "safe_mode": 0}),
              ("whfast", {"kernel": "lazy", "corrector": 17, "corrector2": 1, "safe_mode": 0}),
              ("saba", {"type": "10,6,4", "safe_mode": 1}), ("saba", {"type": "cl4", "safe_mode": 0}),
              ("eos", {"phi0": "lf4", "phi1": "lf", "n": 2, "safe_mode": 1}), ("eos", {"phi0": "pmlf4", "phi1": "lf4", "n": 2, "safe_mode": 0}),
              ("ias15", {}), ("ias15", {"epsilon": 0.0}), ("leapfrog", {}), ("janus", {"order": 4}), ("bs", {}),
              ("mercurius", {"safe_mode": 1}), ("mercurius", {"safe_mode": 0}), ("trace", {}), ("trace", {"peri_mode": "FULL_BS"})]
        if avx:
            P.append(("whfast512", {"N_systems": 1}))
    return P


RI = {"whfast": "ri_whfast", "saba": "ri_saba", "eos": "ri_eos", "ias15": "ri_ias15", "janus": "ri_janus", "bs": "ri_bs",
      "mercurius": "ri_mercurius", "trace": "ri_trace", "whfast512": "ri_whfast512", "sei": "ri_sei"}


def apply_options(sim, integ, o):
    sim.integrator = integ
    if integ in RI:
        ri = getattr(sim, RI[integ])
        for k, v in o.items():
            setattr(ri, k, v)
    if integ == "saba":
        pass


def reattach(sim, integ, o):
    """function pointers are not persisted: the user re-attaches them after loading"""
    if integ == "mercurius" and "L" in o:
        sim.ri_mercurius.L = o["L"]
    if integ == "trace":
        if "S_peri" in o:
            sim.ri_trace.S_peri = o["S_peri"]


def collision_system():
    """ballistic spheres on collision courses: pair A touches at t~0.35, pair B at t~0.85, a bystander; radii 0.1 (one 0.03)"""
    #        m    x     y     z    vx    vy   vz    r
    return [[1.0, 0.0, 0.0, 0.0, 0.5, 0.0, 0.0, 0.1],
            [0.5, 0.55, 0.01, 0.0, -0.5, 0.0, 0.0, 0.1],
            [2.0, 0.0, 3.0, 0.02, 0.0, 0.6, 0.0, 0.1],
            [0.7, 0.01, 4.05, 0.0, 0.0, -0.4, 0.0, 0.03],
            [0.3, -4.0, -4.0, 1.0, 0.01, 0.02, 0.0, 0.1]]


def make_sim(rebound, cfg, pre=None):
    if cfg.get("sys") == "SCOL":
        sim = rebound.Simulation()
        if pre is not None:
            pre(sim)
        for b in collision_system():
            sim.add(m=b[0], x=b[1], y=b[2], z=b[3], vx=b[4], vy=b[5], vz=b[6], r=b[7])
        sim.integrator = cfg["integ"]
        sim.gravity = "none"
        sim.dt = 0.1 * cfg.get("dtsign", 1)
        return sim, 1.0
    G, bodies, P = system(cfg.get("sys", "S3"))
    sim = rebound.Simulation()
    sim.G = G
    if pre is not None:
        pre(sim)        # module set-up that must precede the particles (box, tree)
    tp = cfg.get("tp", 0)
    n = len(bodies)
    for i, b in enumerate(bodies):
        m = b[0]
        if tp == 1 and i == n - 1:
            m = 0.0
        sim.add(m=m, x=b[1], y=b[2], z=b[3], vx=b[4], vy=b[5], vz=b[6])
    if tp:
        sim.N_active = n - 1
        sim.testparticle_type = 1 if tp == 2 else 0
    apply_options(sim, cfg["integ"], cfg.get("o", {}))
    sim.dt = cfg.get("dtsign", 1) * cfg.get("dtfac", 1.0) * P / cfg.get("steps_per_orbit", 20.0)
    if cfg["integ"] == "whfast512":
        sim.exact_finish_time = 0
    return sim, P


def cfg_label(cfg):
    o = cfg.get("o", {})
    return "%s{%s}/%s/tp%d/%s" % (cfg["integ"], ",".join("%s=%s" % (k, o[k]) for k in sorted(o)), cfg.get("sys", "S3"), cfg.get("tp", 0),
                                  "+" if cfg.get("dtsign", 1) > 0 else "-")
