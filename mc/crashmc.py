"""Crash-point enumeration from a syscall log.

run_logged() runs a writer command under strace and returns the ordered list of modifications the
kernel saw for one file: ('trunc',) | ('write', offset, bytes).  images() yields every crash image:
the file content after every *byte prefix* of that modification sequence (a process that dies loses
what is still in its stdio buffer, keeps every completed write(2), and may have a write cut anywhere).
"""
import os
import re
import subprocess

_sys = re.compile(r"^(\d+)\s+(\w+)\((.*)\)\s+=\s+(-?\d+)")


def _unhex(s):
    return bytes.fromhex(s.replace("\\x", ""))


def run_logged(cmd, path, env=None, timeout=300):
    log = path + ".strace"
    full = ["strace", "-f", "-e", "trace=openat,write,pwrite64,lseek,ftruncate,close,read,pread64,dup,dup2,rename,unlink", "-xx", "-s", "10000000", "-o", log] + cmd
    r = subprocess.run(full, stdout=subprocess.PIPE, stderr=subprocess.STDOUT, env=env, timeout=timeout)
    if r.returncode != 0:
        raise RuntimeError("writer failed: rc=%d %s" % (r.returncode, r.stdout.decode(errors="replace")[-2000:]))
    hexpath = "".join("\\x%02x" % c for c in path.encode())
    mods = []
    fds = {}     # (pid-agnostic) fd -> offset ; the writers here are single-process
    marks = []   # indices into mods at which a writer-level operation (one save call) ended: file closed
    with open(log) as f:
        for line in f:
            m = _sys.match(line)
            if not m:
                continue
            pid, name, args, ret = m.group(1), m.group(2), m.group(3), int(m.group(4))
            if name == "openat":
                if hexpath in args and ret >= 0:
                    fds[ret] = 0
                    if "O_TRUNC" in args:
                        mods.append(("trunc",))
                elif ret in fds:
                    del fds[ret]
                continue
            a0 = args.split(",", 1)[0].strip()
            if not a0.isdigit() or int(a0) not in fds:
                continue
            fd = int(a0)
            if name == "close":
                del fds[fd]
                marks.append(len(mods))
            elif name == "lseek":
                if ret >= 0:
                    fds[fd] = ret
            elif name in ("read",):
                if ret > 0:
                    fds[fd] += ret
            elif name == "write":
                mm = re.match(r'^\d+,\s+"((?:\\x[0-9a-f]{2})*)"', args)
                data = _unhex(mm.group(1))[:ret] if ret > 0 else b""
                if ret > 0:
                    mods.append(("write", fds[fd], data))
                    fds[fd] += ret
            elif name == "pwrite64":
                mm = re.match(r'^\d+,\s+"((?:\\x[0-9a-f]{2})*)",\s*\d+,\s*(\d+)', args)
                if ret > 0:
                    mods.append(("write", int(mm.group(2)), _unhex(mm.group(1))[:ret]))
            elif name == "ftruncate":
                mods.append(("truncate", int(args.split(",")[1])))
            elif name in ("dup", "dup2", "rename", "unlink"):
                raise RuntimeError("unexpected %s on the archive" % name)
    os.unlink(log)
    return mods, marks


def apply(content, mod, nbytes=None):
    c = bytearray(content)
    if mod[0] == "trunc":
        return bytearray()
    if mod[0] == "truncate":
        del c[mod[1]:]
        return c
    _, off, data = mod
    if nbytes is not None:
        data = data[:nbytes]
    if off > len(c):
        c.extend(b"\0" * (off - len(c)))
    c[off:off + len(data)] = data
    return c


def images(mods, start=b"", first_mod=0):
    """yield (mod_index, bytes_of_that_mod_applied, content) for every byte prefix, in order; the state after
    a complete modification is yielded as prefix 0 of the next one (and once at the very end)."""
    content = bytearray(start)
    for i, mod in enumerate(mods):
        if i >= first_mod:
            if mod[0] == "write":
                for n in range(0, len(mod[2])):
                    yield i, n, bytes(apply(content, mod, n))
            else:
                yield i, 0, bytes(content)
        content = apply(content, mod)
    yield len(mods), 0, bytes(content)
