"""WHFast512 (AVX512 build) parts of C01, C03, C04, C05, C08, C09 and C10.

The AVX512 integrator has its own Kepler solver, interaction step, coordinate transformation and synchronisation code, none of
which the `rel` build contains.  A check calls `run(ctx, "<ID>")`; this starts `python -m mc.w512 <ID> <tier>` (a process that
loads the `avx` build) and merges the violations it prints.  Without avx512f on the machine the part is skipped and said so.
"""
import json
import math
import os
import subprocess
import sys

U = 2.0 ** -53
PLANETS8 = [(1e-5 * (1 + k % 3), 1.0 * 1.45 ** k, 0.02 + 0.01 * (k % 4), 0.01 * (k % 5), 0.7 * k, 1.3 * k, 2.1 * k) for k in range(8)]


def run(ctx, pid):
    """called by the check of property pid; returns the number of cases covered (0 if skipped)"""
    from . import build
    if not build.have_avx512():
        ctx.note("WHFast512 part skipped: this CPU has no avx512f")
        return 0
    env = dict(os.environ)
    env.pop("LD_PRELOAD", None)
    r = subprocess.run([sys.executable, "-m", "mc.w512", pid, ctx.tier], stdout=subprocess.PIPE, stderr=subprocess.PIPE, cwd=os.path.dirname(os.path.dirname(os.path.abspath(__file__))), env=env, timeout=3600)
    try:
        out = json.loads(r.stdout.decode().strip().splitlines()[-1])
    except Exception:
        ctx.violation("whfast512-part:failed", "the WHFast512 part of %s did not complete: rc %s %s" % (pid, r.returncode, r.stderr.decode(errors="replace")[-400:]), {"part": "w512"})
        return 0
    for sig, what, case in out["violations"]:
        ctx.violation(sig, what, case)
    ctx.note("WHFast512 part: %d cases" % out["cases"])
    return out["cases"]


# --------------------------------------------------------------------------------------------- inside the avx process
def systems(rebound, lattice, ns):
    """-> list of sub-systems, each a list of bodies (m,x,y,z,vx,vy,vz) in its own centre-of-mass frame; G=1"""
    per = 8 // ns
    subs = []
    for s in range(ns):
        bodies = [[1.0 - 0.05 * s, 0, 0, 0, 0, 0, 0]]
        for k in range(per):
            (m, a, e, inc, Om, om, f) = PLANETS8[(k + 3 * s) % 8]
            a = 1.0 * 1.5 ** k * (1 + 0.07 * s)
            x, y, z, vx, vy, vz = lattice.kep2cart(bodies[0][0] + m, a, e, inc, Om + s, om, f + 0.3 * s)
            bodies.append([m * (1 + s), x, y, z, vx, vy, vz])
        M = sum(b[0] for b in bodies)
        for c in range(1, 7):
            cm = sum(b[0] * b[c] for b in bodies) / M
            for b in bodies:
                b[c] -= cm
        subs.append(bodies)
    return subs


def make(rebound, lattice, ns, keep=0, integ="whfast512", dt=None):
    subs = systems(rebound, lattice, ns)
    sim = rebound.Simulation()
    for bodies in subs:
        for b in bodies:
            sim.add(m=b[0], x=b[1], y=b[2], z=b[3], vx=b[4], vy=b[5], vz=b[6])
    P = 2 * math.pi
    sim.dt = dt if dt else P / 20
    sim.integrator = integ
    if integ == "whfast512":
        sim.ri_whfast512.N_systems = ns
        sim.ri_whfast512.keep_unsynchronized = keep
        sim.exact_finish_time = 0
    return sim, subs


def state(sim):
    return [[getattr(p, c) for c in ("x", "y", "z", "vx", "vy", "vz")] for p in sim.particles]


def bits(sim):
    import struct
    return [struct.pack("<7d", p.x, p.y, p.z, p.vx, p.vy, p.vz, p.m) for p in sim.particles] + [struct.pack("<d", sim.t)]


def part_c01(rebound, lattice, tier, V):
    from . import refmath
    n = 0
    for ns in (1, 2, 4):
        subs = systems(rebound, lattice, ns)
        T = 2 * 2 * math.pi
        ref = []
        for bodies in subs:
            y = refmath.nbody_reference(1.0, bodies, T)
            ref += [[float(y[3 * i + c]) for c in range(3)] for i in range(len(bodies))]
        scale = max(abs(v) for r in ref for v in r)
        for keep in (0, 1):
            errs = []
            for steps in (40, 80, 160):
                sim, _ = make(rebound, lattice, ns, keep, dt=T / steps)
                sim.steps(steps)
                sim.synchronize()
                errs.append(max(abs(getattr(sim.particles[i], c) - ref[i][k]) for i in range(sim.N) for k, c in enumerate("xyz")) / scale)
            n += 1
            lab = "whfast512{N_systems=%d,keep_unsynchronized=%d}" % (ns, keep)
            if not (errs[0] / errs[2] >= 4.0 ** 1.5 or errs[1] / errs[2] >= 2.0 ** 1.5) or errs[0] > 0.5:
                V.append(("order:whfast512:p2", "%s: errors %.3g, %.3g, %.3g at h, h/2, h/4 against the reference; advertised order 2" % (lab, errs[0], errs[1], errs[2]), {"ns": ns, "keep": keep}))
            # the same scheme as WHFast in democratic heliocentric coordinates, each sub-system on its own
            off = 0
            worst = 0.0
            for bodies in subs:
                w = rebound.Simulation()
                for b in bodies:
                    w.add(m=b[0], x=b[1], y=b[2], z=b[3], vx=b[4], vy=b[5], vz=b[6])
                w.integrator = "whfast"
                w.ri_whfast.coordinates = "democraticheliocentric"
                w.ri_whfast.safe_mode = 0
                w.dt = T / 160
                w.steps(160)
                w.synchronize()
                for i in range(w.N):
                    for c in "xyz":
                        worst = max(worst, abs(getattr(w.particles[i], c) - getattr(sim.particles[off + i], c)))
                off += w.N
            if worst / scale > 1e-9:
                V.append(("relation:whfast512-vs-whfast-dh", "%s differs from WHFast (democratic heliocentric, safe_mode=0) run on each sub-system by %.3g of the system size after 160 steps" % (lab, worst / scale), {"ns": ns, "keep": keep}))
    return n


def part_c03(rebound, lattice, tier, V):
    from .checks import c03
    n = 0
    es = [0.0, 1e-8, 0.1, 0.5, 0.9, 0.99] + ([0.999] if tier == "thorough" else [])
    for e in es:
        for a in (1.0, 5.2):
            for f0 in (0.0, math.pi, 1.0, -2.3, 2.8):
                for dtP in (1e-4, 1.1e-2, 0.05, 0.1) + ((0.3,) if e < 0.6 else ()):
                    mu = 1.0
                    s = list(c03.state(mu, a, e, f0))
                    P = 2 * math.pi * math.sqrt(a ** 3 / mu)
                    dt = dtP * P
                    sim = rebound.Simulation()
                    sim.add(m=mu, x=0.3, y=-0.1, z=0.2, vx=0.01, vy=-0.02, vz=0.005)
                    p0 = sim.particles[0]
                    sim.add(m=0.0, x=p0.x + s[0], y=p0.y + s[1], z=p0.z + s[2], vx=p0.vx + s[3], vy=p0.vy + s[4], vz=p0.vz + s[5])
                    sim.integrator = "whfast512"
                    sim.exact_finish_time = 0
                    sim.dt = dt
                    A, B = sim.particles[0], sim.particles[1]
                    s_in = [B.x - A.x, B.y - A.y, B.z - A.z, B.vx - A.vx, B.vy - A.vy, B.vz - A.vz]
                    try:
                        sim.step()
                        sim.synchronize()
                    except Exception as ex:     # noqa
                        V.append(("step:whfast512:error", "one step of whfast512 raised %r [e=%r a=%r f0=%r dt=%g P]" % (ex, e, a, f0, dtP), {"e": e, "a": a, "f0": f0, "dtP": dtP}))
                        continue
                    A, B = sim.particles[0], sim.particles[1]
                    out = [B.x - A.x, B.y - A.y, B.z - A.z, B.vx - A.vx, B.vy - A.vy, B.vz - A.vz]
                    ref = [float(v) for v in c03.kepler_exact(mu, s_in[:3], s_in[3:], dt)]
                    sp = max(abs(v) for v in ref[:3])
                    sv = max(abs(v) for v in ref[3:])
                    n += 1
                    # conditioning: one ulp in the inputs changes the phase by ~ n dt u / (1-e)^2
                    cond = 1 + dtP * 2 * math.pi / (1 - e) ** 2
                    # the solver runs a fixed number of iterations (2 Halley + 2 Newton) without a convergence test: steps that are long
                    # compared with the pericentre passage, kappa = n dt / (1-e)^1.5 > 5, are a recorded finding; below that it must be exact
                    kappa = dtP * 2 * math.pi / (1 - e) ** 1.5
                    for k in range(6):
                        tol = 4096 * U * cond * (sp if k < 3 else sv) / max(1 - e, 1e-3)
                        if not abs(out[k] - ref[k]) <= tol:
                            V.append(("step:whfast512:%s" % ("unconverged-fixed-iterations:kappa>5" if kappa > 5 else "elliptic"), "one step of whfast512 (massless planet): component %d is %r, the exact Kepler orbit gives %r (tolerance %.3g) [e=%r a=%r f0=%r dt=%g P]" % (k, out[k], ref[k], tol, e, a, f0, dtP), {"e": e, "a": a, "f0": f0, "dtP": dtP}))
                            break
    return n


def invariants(sim, np):
    LD = np.longdouble
    n = sim.N
    m = np.array([sim.particles[i].m for i in range(n)], dtype=LD)
    X = np.array([[sim.particles[i].x, sim.particles[i].y, sim.particles[i].z] for i in range(n)], dtype=LD)
    Vv = np.array([[sim.particles[i].vx, sim.particles[i].vy, sim.particles[i].vz] for i in range(n)], dtype=LD)
    return m, X, Vv


def part_c04(rebound, lattice, tier, V):
    import numpy as np
    LD = np.longdouble
    n = 0
    steps = 2000 if tier == "quick" else 10000
    for ns in (1, 2, 4):
        for keep in (0, 1):
            sim, subs = make(rebound, lattice, ns, keep, dt=2 * math.pi / 25)
            per = sim.N // ns
            # boost every sub-system so that its centre of mass moves
            for i in range(sim.N):
                p = sim.particles[i]
                p.vx += 0.03
                p.vy -= 0.02
                p.x += 0.4
            def inv():
                m, X, Vv = invariants(sim, np)
                out = []
                for s in range(ns):
                    sl = slice(s * per, (s + 1) * per)
                    P = (m[sl, None] * Vv[sl]).sum(axis=0)
                    C = (m[sl, None] * X[sl]).sum(axis=0)
                    L = (m[sl, None] * np.cross(X[sl], Vv[sl])).sum(axis=0)
                    K = (m[sl] * (Vv[sl] * Vv[sl]).sum(axis=1)).sum() / 2
                    W = LD(0)
                    for i in range(s * per, (s + 1) * per):
                        for j in range(s * per, i):
                            d = X[i] - X[j]
                            W -= m[i] * m[j] / np.sqrt((d * d).sum())
                    M = m[sl].sum()
                    out.append((P, C, L, K + W, K + W - (P * P).sum() / (2 * M),
                                float((m[sl] * np.sqrt((Vv[sl] * Vv[sl]).sum(axis=1))).sum()), float((m[sl] * np.sqrt((X[sl] * X[sl]).sum(axis=1)) * np.sqrt((Vv[sl] * Vv[sl]).sum(axis=1))).sum())))
                return out
            I0 = inv()
            emax = [[0.0, 0.0] for _ in range(ns)]
            lab = "whfast512{N_systems=%d,keep_unsynchronized=%d}" % (ns, keep)
            bad = False
            for blk in range(8):
                sim.steps(steps // 8)
                sim.synchronize()
                I = inv()
                rn = math.sqrt((blk + 1) * steps / 8)
                t = LD(sim.t)
                for s in range(ns):
                    dP = float(np.max(np.abs(I[s][0] - I0[s][0]))) / I0[s][5]
                    dC = float(np.max(np.abs(I[s][1] - I0[s][1] - I0[s][0] * t))) / (I0[s][5] * (1 + abs(float(t))))
                    dL = float(np.max(np.abs(I[s][2] - I0[s][2]))) / max(I[s][6], I0[s][6])
                    dE = float(abs(I[s][3] - I0[s][3]) / abs(I0[s][4]))
                    emax[s][0 if blk < 4 else 1] = max(emax[s][0 if blk < 4 else 1], dE)
                    for nm, val, tol in (("momentum", dP, 1024 * U * rn), ("com", dC, 1024 * U * rn), ("angular-momentum", dL, 4096 * U * rn), ("energy-class", dE, 1e-4)):
                        if val > tol and not bad:
                            bad = True
                            V.append(("%s:whfast512" % nm, "%s, sub-system %d: %s changed by %.3g of its scale after %d steps (allowed %.3g)" % (lab, s, nm, val, (blk + 1) * steps // 8, tol), {"ns": ns, "keep": keep}))
            for s in range(ns):
                if emax[s][1] > 3 * emax[s][0] + 1e-7 and not bad:
                    V.append(("energy-drift:whfast512", "%s, sub-system %d: max |dE/E| %.3g in the first half and %.3g in the second half of %d steps" % (lab, s, emax[s][0], emax[s][1], steps), {"ns": ns, "keep": keep}))
            n += 1
    return n


def part_c05(rebound, lattice, tier, V):
    n = 0
    for ns in (1, 2, 4):
        for keep in (0, 1):
            for k in (0, 1, 3, 7):
                for via in ("copy", "file"):
                    a, _ = make(rebound, lattice, ns, keep)
                    a.steps(k)
                    if via == "copy":
                        b = a.copy()
                    else:
                        fn = "/var/tmp/w512_%d.bin" % os.getpid()
                        a.save_to_file(fn, delete_file=True)
                        b = rebound.Simulation(fn)
                        os.remove(fn)
                    if bits(a) != bits(b):
                        V.append(("restore:whfast512", "whfast512{N_systems=%d,keep=%d}: the simulation restored (%s) after %d steps differs from the original" % (ns, keep, via, k), {"ns": ns, "keep": keep, "k": k}))
                        continue
                    for more in (1, 1, 3):
                        a.steps(more)
                        b.steps(more)
                        if bits(a) != bits(b):
                            V.append(("continue:whfast512:keep%d" % keep, "whfast512{N_systems=%d,keep=%d}: original and restored (%s after %d steps) simulation differ after further steps" % (ns, keep, via, k), {"ns": ns, "keep": keep, "k": k}))
                            break
                    else:
                        a.synchronize()
                        b.synchronize()
                        if bits(a) != bits(b):
                            V.append(("continue:whfast512:keep%d:sync" % keep, "whfast512{N_systems=%d,keep=%d}: original and restored (%s after %d steps) differ after synchronize" % (ns, keep, via, k), {"ns": ns, "keep": keep, "k": k}))
                    n += 1
    return n


def part_c08(rebound, lattice, tier, V):
    n = 0
    for ns in (1, 2, 4):
        for keep in (0, 1):
            for off in (0.0, 1 / 3, 1.0, 2.5, 10.0):
                sim, _ = make(rebound, lattice, ns, keep)
                dt = sim.dt
                T = off * dt
                ts = []
                hb = lambda s: ts.append(s.contents.t)
                sim.heartbeat = hb
                sim.integrate(T, exact_finish_time=0)
                n += 1
                want = math.ceil(off - 1e-12) * dt
                if not (abs(sim.t - want) <= 1e-9 * dt):
                    V.append(("end-time:whfast512", "whfast512{N_systems=%d,keep=%d}: integrate(%g dt) without exact finishing ended at t=%r, expected %r" % (ns, keep, off, sim.t, want), {"ns": ns, "keep": keep, "off": off}))
                if any(b < a for a, b in zip(ts, ts[1:])):
                    V.append(("monotone:whfast512", "time is not monotone at the step boundaries: %s" % ts[:8], {"ns": ns, "keep": keep, "off": off}))
                if not (abs(sim.dt - dt) <= 0):
                    V.append(("dt-changed:whfast512", "dt changed from %r to %r" % (dt, sim.dt), {"ns": ns, "keep": keep, "off": off}))
    return n


def part_c09(rebound, lattice, tier, V):
    n = 0
    seqs = [(6,), (1, 5), (2, 2, 2), (3, 1, 2), (1, 1, 1, 1, 1, 1)]
    for ns in (1, 2, 4):
        ref = None
        for keep in (1, 0):
            for seq in seqs:
                sim, _ = make(rebound, lattice, ns, keep)
                dt = sim.dt
                t = 0.0
                for k in seq:
                    t += k * dt
                    sim.integrate(t - 1e-9 * dt, exact_finish_time=0)      # k steps, then an output (synchronize)
                sim.synchronize()
                b = bits(sim)
                n += 1
                if keep == 1:
                    if ref is None:
                        ref = (b, state(sim))
                    elif b != ref[0]:
                        V.append(("keep-unsynchronized:outputs-change-bits:whfast512", "whfast512{N_systems=%d,keep_unsynchronized=1}: outputs after %s steps change the final bits compared with an uninterrupted run" % (ns, list(seq)), {"ns": ns, "seq": list(seq)}))
                else:
                    st = state(sim)
                    d = max(abs(x - y) for p, q in zip(st, ref[1]) for x, y in zip(p, q))
                    sc = max(abs(x) for p in ref[1] for x in p)
                    if not (d <= 1e-12 * sc):
                        V.append(("resync-vs-keep:whfast512", "whfast512{N_systems=%d}: re-synchronising at outputs after %s steps changes the result by %.3g of the system size (only rounding is allowed: the merged drift is exact)" % (ns, list(seq), d / sc), {"ns": ns, "seq": list(seq)}))
    return n


def part_c10(rebound, lattice, tier, V):
    n = 0
    for ns in (1, 2, 4):
        for nsteps in (1, 5, 50):
            sim, _ = make(rebound, lattice, ns, 0)
            s0 = state(sim)
            sim.steps(nsteps)
            sim.synchronize()
            # WHFast512 does not take negative steps: the documented way back is to flip the velocities
            for p in sim.particles:
                p.vx, p.vy, p.vz = -p.vx, -p.vy, -p.vz
            rebound.clibrebound.reb_simulation_reset_integrator(rebound.simulation.byref(sim))
            sim.integrator = "whfast512"
            sim.ri_whfast512.N_systems = ns
            sim.steps(nsteps)
            sim.synchronize()
            s1 = [[p.x, p.y, p.z, -p.vx, -p.vy, -p.vz] for p in sim.particles]
            sp = max(abs(v) for p in s0 for v in p[:3])
            sv = max(abs(v) for p in s0 for v in p[3:])
            d = max(abs(a - b) / (sp if k < 3 else sv) for p, q in zip(s0, s1) for k, (a, b) in enumerate(zip(p, q)))
            n += 1
            if not (d <= 2000 * U * math.sqrt(nsteps) * 10):
                V.append(("reverse:whfast512", "whfast512{N_systems=%d}: %d steps, velocities flipped, %d steps do not return to the start: %.3g of the scale" % (ns, nsteps, nsteps, d), {"ns": ns, "n": nsteps}))
    return n


def part_c19(rebound, lattice, tier, V):
    """two WHFast512 simulations with different masses / numbers of systems stepped alternately in one thread, against each alone"""
    import itertools
    n = 0
    k = 3
    def mk(which):
        ns, keep = which
        sim, _ = make(rebound, lattice, ns, keep)
        return sim
    kinds = [(1, 0), (2, 0), (4, 1)]
    for a in kinds:
        for b in kinds:
            A = mk(a); A.steps(k); A.synchronize(); refA = bits(A)
            B = mk(b); B.steps(k); B.synchronize(); refB = bits(B)
            bad = []
            for pos in itertools.combinations(range(2 * k), k):
                A = mk(a)
                B = mk(b)
                for j in range(2 * k):
                    (A if j in pos else B).steps(1)
                A.synchronize()
                B.synchronize()
                n += 1
                if bits(A) != refA or bits(B) != refB:
                    bad.append("".join("A" if j in pos else "B" for j in range(2 * k)))
            if bad:
                V.append(("interleave:whfast512+whfast512:%s" % ("same-layout" if a == b else "different-layout"),
                          "stepping A=whfast512{N_systems=%d} and B=whfast512{N_systems=%d} alternately (orders %s, %d of %d) gives other bits than stepping each alone" % (a[0], b[0], bad[:3], len(bad), 20),
                          {"a": list(a), "b": list(b), "orders": bad[:5]}))
    return n


PARTS = {"C19": part_c19, "C01": part_c01, "C03": part_c03, "C04": part_c04, "C05": part_c05, "C08": part_c08, "C09": part_c09, "C10": part_c10}


def main():
    pid, tier = sys.argv[1], sys.argv[2]
    from . import common, lattice, rb
    ctx = common.Ctx(pid, tier, 0)
    rebound = ctx.use("avx")
    rb.quiet()
    os.chdir("/var/tmp")
    V = []
    try:
        n = PARTS[pid](rebound, lattice, tier, V)
    except Exception:      # noqa
        import traceback
        V.append(("whfast512-part:exception", traceback.format_exc()[-600:], {"part": pid}))
        n = 0
    print(json.dumps({"violations": V, "cases": n}))


if __name__ == "__main__":
    main()
