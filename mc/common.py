"""Shared plumbing: context, violation bookkeeping, known findings, evidence, replay files."""
import hashlib
import json
import os
import random
import subprocess
import sys
import time

VERIF = os.path.dirname(os.path.dirname(os.path.abspath(__file__)))
KNOWN = os.path.join(VERIF, "known_findings.json")
PY = sys.executable


def load_known():
    try:
        with open(KNOWN) as f:
            return json.load(f)
    except OSError:
        return {"findings": [], "fixed": []}


def jdefault(o):
    import numpy as np
    if isinstance(o, (np.integer,)):
        return int(o)
    if isinstance(o, (np.floating,)):
        return float(o)
    if isinstance(o, np.ndarray):
        return o.tolist()
    if isinstance(o, bytes):
        return o.hex()
    if isinstance(o, (set, frozenset)):
        return sorted(o)
    return repr(o)


class Ctx:
    def __init__(self, pid, tier, seed):
        self.pid = pid
        self.tier = tier
        self.seed = seed
        self.rng = random.Random(seed)  # ONLY for ordering of exhaustive enumerations
        self.t0 = time.time()
        self.viol = {}      # signature -> {what, case, count}
        self.notes = []
        self.libs = {}
        self.cov = {}

    # ---- enumeration order (verdict must not depend on it)
    def shuffled(self, seq):
        seq = list(seq)
        if self.seed:
            self.rng.shuffle(seq)
        return seq

    # ---- builds
    def lib(self, variant="rel"):
        from . import build
        if variant not in self.libs:
            self.libs[variant] = build.build(variant)
        return self.libs[variant]

    def use(self, variant="rel"):
        """Make `import rebound` load the given variant in this process (and in forked workers)."""
        d = self.lib(variant)
        if d is None:
            return None
        for m in list(sys.modules):
            if m == "rebound" or m.startswith("rebound."):
                raise RuntimeError("rebound already imported")
        sys.path.insert(0, d)
        cwd = os.path.join(d, "cwd")
        os.makedirs(cwd, exist_ok=True)
        html = os.path.join(cwd, "rebound.html")
        if not os.path.exists(html):
            open(html, "w").write("<html></html>")
        import rebound
        assert os.path.dirname(os.path.dirname(os.path.abspath(rebound.__file__))) == d, rebound.__file__
        return rebound

    # ---- violations
    def violation(self, signature, what, case):
        """signature: stable key of the failure class (used to match known findings);
           what: one-line human description; case: JSON-able minimal failing case for replay."""
        v = self.viol.get(signature)
        if v is None:
            self.viol[signature] = {"what": what, "case": case, "count": 1}
        else:
            v["count"] += 1

    def note(self, s):
        self.notes.append(s)
        sys.stderr.write("[%s] %s\n" % (self.pid, s))

    def elapsed(self):
        return time.time() - self.t0

    def finish(self, level, coverage, assumptions=()):
        known = load_known()
        kn = {}
        for f in known.get("findings", []):
            if f.get("property") == self.pid:
                kn[f["signature"]] = f
        new = []
        for sig in sorted(self.viol):
            v = self.viol[sig]
            if sig in kn:
                print("KNOWN-FINDING: property=%s %s [%s] (x%d)" % (self.pid, kn[sig].get("what", v["what"]), sig, v["count"]))
            else:
                new.append(sig)
        rc = 0
        rdir = os.path.join(VERIF, "replays", self.pid)
        for sig in new:
            v = self.viol[sig]
            os.makedirs(rdir, exist_ok=True)
            h = hashlib.sha256(sig.encode()).hexdigest()[:12]
            path = os.path.join(rdir, h + ".json")
            with open(path, "w") as f:
                json.dump({"property": self.pid, "signature": sig, "what": v["what"], "case": v["case"]}, f,
                          indent=1, default=jdefault)
            print("VIOLATION property=%s replay=%s" % (self.pid, path))
            print("  signature: %s" % sig)
            print("  what: %s (x%d)" % (v["what"], v["count"]))
            rc = 1
        cov = dict(coverage)
        cov.setdefault("exhaustive", True)
        ev = {
            "property_id": self.pid,
            "tier": self.tier,
            "seed": int(self.seed),
            "level": level,
            "coverage": cov,
            "assumptions": list(assumptions),
            "wall_s": round(self.elapsed(), 2),
            "violations": len(new),
            "known_findings_reproduced": sorted(s for s in self.viol if s in kn),
            "notes": self.notes,
        }
        os.makedirs(os.path.join(VERIF, "evidence"), exist_ok=True)
        try:
            import jsonschema
            schema = json.load(open("/root/.vp/EVIDENCE.schema.json"))
            jsonschema.validate(json.loads(json.dumps(ev, default=jdefault)), schema)
        except ImportError:
            pass
        except OSError:
            pass
        with open(os.path.join(VERIF, "evidence", self.pid + ".json"), "w") as f:
            json.dump(ev, f, indent=1, default=jdefault)
            f.write("\n")
        print("%s tier=%s seed=%d wall=%.1fs new_violations=%d known=%d %s" % (
            self.pid, self.tier, self.seed, self.elapsed(), len(new), len(ev["known_findings_reproduced"]),
            " ".join("%s=%s" % (k, cov[k]) for k in ("states", "transitions", "evaluations", "distinct_nontrivial") if k in cov)))
        return rc


def bits(x):
    import struct
    return struct.pack("<d", x).hex()


def digest(*parts):
    h = hashlib.sha256()
    for p in parts:
        if isinstance(p, str):
            p = p.encode()
        elif not isinstance(p, (bytes, bytearray, memoryview)):
            p = json.dumps(p, sort_keys=True, default=jdefault).encode()
        h.update(p)
        h.update(b"|")
    return h.hexdigest()[:24]


def classify_crash(info):
    """-> (signature fragment, short text) from a pool 'crash' record (sanitizer report in stderr)."""
    import re
    err = info.get("stderr", "") if isinstance(info, dict) else str(info)
    kind = None
    m = re.search(r"ERROR: AddressSanitizer: ([\w-]+)", err)
    if m:
        kind = "asan-" + m.group(1)
    else:
        m = re.search(r"runtime error: ([^\n]+)", err)
        if m:
            kind = "ubsan-" + re.sub(r"0x[0-9a-f]+|\d+", "N", m.group(1))[:60]
    func = None
    for m in re.finditer(r"#\d+ 0x[0-9a-f]+ in (\w+) /repo/src/(\w+\.c):(\d+)", err):
        func = "%s@%s" % (m.group(1), m.group(2))
        break
    if func is None:
        m = re.search(r"/repo/src/(\w+\.c):(\d+)", err)
        if m:
            func = m.group(1)
    if kind is None:
        kind = "exit%s" % (info.get("exitcode") if isinstance(info, dict) else "?")
    i = err.find("ERROR: AddressSanitizer")
    if i < 0:
        i = err.find("runtime error")
    short = err[max(0, i - 100):i + 900] if i >= 0 else err[-600:]
    return "%s:%s" % (kind, func), short


def nanmax(it):
    """max() that does not lose a NaN: Python's max silently drops NaNs that are not in first place"""
    m = None
    for v in it:
        if v != v:
            return v
        if m is None or v > m:
            m = v
    if m is None:
        raise ValueError("nanmax() of an empty sequence")
    return m
