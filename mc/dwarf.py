"""C structure layouts from the DWARF of a -g object, via `gdb -batch -ex 'ptype /o struct X'`."""
import re
import subprocess

_line = re.compile(r"^/\*\s*(\d+)(?::\s*\d+)?\s*\|\s*(\d+)\s*\*/\s?(.*)$")


def ptype(obj, what):
    r = subprocess.run(["gdb", "-batch", "-ex", "set width 0", "-ex", "ptype /o " + what, obj],
                       stdout=subprocess.PIPE, stderr=subprocess.STDOUT, text=True)
    return r.stdout


def gdb_print(obj, exprs):
    args = ["gdb", "-batch", "-ex", "set width 0"]
    for e in exprs:
        args += ["-ex", "print " + e]
    r = subprocess.run(args + [obj], stdout=subprocess.PIPE, stderr=subprocess.STDOUT, text=True)
    return r.stdout


def classify(decl):
    """decl: C declaration text without trailing ';' -> (kind, name, count)
    kind in f8,f4,i1,u1,i2,u2,i4,u4,i8,u8,enum,ptr,fptr,char"""
    d = decl.strip()
    if d.startswith("enum "):
        # anonymous enums print their enumerators in braces; the member name is the last identifier
        tail = d[d.rfind("}") + 1:] if "}" in d else d[5:]
        name = tail.strip().split()[-1]
        return "enum", name, 1
    m = re.match(r"^(.*?)\(\*\s*(?:const\s+|restrict\s+)*(\w+)\)\s*\(.*\)$", d)
    if m:
        return "fptr", m.group(2), 1
    m = re.match(r"^(.*?)(\w+)((?:\[\d+\])*)$", d)
    if not m:
        raise ValueError("cannot parse declaration: " + decl)
    typ, name, arr = m.group(1).strip(), m.group(2), m.group(3)
    count = 1
    for n in re.findall(r"\[(\d+)\]", arr):
        count *= int(n)
    if "*" in typ:
        return "ptr", name, count
    t = re.sub(r"\b(const|volatile|restrict)\b", "", typ).strip()
    t = re.sub(r"\s+", " ", t)
    table = {
        "double": "f8", "float": "f4", "int": "i4", "unsigned int": "u4", "unsigned": "u4", "uint32_t": "u4", "int32_t": "i4",
        "uint64_t": "u8", "int64_t": "i8", "long": "i8", "unsigned long": "u8", "long long": "i8", "unsigned long long": "u8",
        "size_t": "u8", "char": "char", "unsigned char": "u1", "short": "i2", "unsigned short": "u2", "uint16_t": "u2", "int16_t": "i2",
        "uint8_t": "u1", "int8_t": "i1", "pthread_t": "u8", "_Bool": "u1", "float complex": "f4",
    }
    if t in table:
        return table[t], name, count
    return "opaque:" + t, name, count


def layout(obj, what):
    """-> (total_size, [leaf dict(off,size,kind,path)]) ; nested structs are flattened with dotted paths,
    arrays expanded element-wise (name[i])."""
    txt = ptype(obj, what)
    leaves = []
    stack = []   # list of (base_offset, name-prefix placeholder index)
    total = None
    pending = []  # stack of lists for nested struct members awaiting their name
    cur = []
    frames = []
    for raw in txt.splitlines():
        s = raw.rstrip()
        m = _line.match(s)
        if m:
            off, size, rest = int(m.group(1)), int(m.group(2)), m.group(3).strip()
            if rest.endswith("{"):
                # nested struct/union opening (or the top-level "type = struct X {")
                frames.append((off, size, cur, rest))
                cur = []
                continue
            rest = rest.rstrip(";")
            kind, name, count = classify(rest)
            es = size // count if count else size
            if count == 1:
                cur.append({"off": off, "size": size, "kind": kind, "path": name})
            else:
                for i in range(count):
                    cur.append({"off": off + i * es, "size": es, "kind": kind, "path": "%s[%d]" % (name, i)})
            continue
        t = s.strip()
        if t.startswith("/* offset"):
            # header line: "/* offset | size */ type = struct X {"
            frames.append((0, None, cur, t))
            cur = []
            continue
        mm = re.match(r"^}\s*(\w+)?((?:\[\d+\])*)\s*;?$", t)
        if mm and frames:
            off, size, outer, opener = frames.pop()
            name, arr = mm.group(1), mm.group(2)
            if name is None:
                if frames:      # anonymous nested struct/union: members join the parent directly
                    outer.extend(cur)
                    cur = outer
                    continue
                leaves = cur
                cur = outer
                continue
            count = 1
            for n in re.findall(r"\[(\d+)\]", arr or ""):
                count *= int(n)
            es = size // count
            base0 = min([x["off"] for x in cur], default=off)
            for i in range(count):
                for x in cur:
                    outer.append({"off": x["off"] - base0 + off + i * es, "size": x["size"], "kind": x["kind"],
                                  "path": "%s%s.%s" % (name, "[%d]" % i if count > 1 else "", x["path"])})
            cur = outer
            continue
        mt = re.search(r"total size \(bytes\):\s*(\d+)", t)
        if mt:
            total = int(mt.group(1))
    return total, leaves


def enumerators(header_text):
    """all REB_* enumerator names appearing in enum blocks of a header"""
    names = []
    for blk in re.findall(r"enum\s*\w*\s*\{([^}]*)\}", header_text, flags=re.S):
        blk = re.sub(r"//[^\n]*", "", blk)
        blk = re.sub(r"/\*.*?\*/", "", blk, flags=re.S)
        for item in blk.split(","):
            item = item.strip()
            if not item:
                continue
            nm = item.split("=")[0].strip()
            if re.match(r"^[A-Za-z_]\w*$", nm):
                names.append(nm)
    return names


def enum_values(obj, names):
    out = {}
    txt = gdb_print(obj, ["(long)" + n for n in names])
    vals = re.findall(r"^\$\d+ = (-?\d+)$|^(No symbol .*)$", txt, flags=re.M)
    # gdb prints either "$k = v" or an error line per expression, in order
    i = 0
    for line in txt.splitlines():
        if i >= len(names):
            break
        m = re.match(r"^\$\d+ = (-?\d+)$", line)
        if m:
            out[names[i]] = int(m.group(1))
            i += 1
        elif line.startswith("No symbol") or "rror" in line:
            i += 1
    return out
