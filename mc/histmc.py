"""Explicit-state breadth-first exploration of a real object.

A state *is* the operation history that reaches it (live C objects do not copy reliably and
reb_simulation_copy is itself under test), so every expansion rebuilds the object by replaying
the history on a fresh instance.  States are de-duplicated by a canonical digest supplied by the
model; the oracle is evaluated on every transition.

Model protocol (a plain object, must be usable after fork):
    init(cfg)               -> (obj, ref)          fresh real object + reference model
    ops(cfg, obj, ref)      -> list of JSON-able operations enabled in this state
    apply(cfg, obj, ref, op)-> list of violation tuples (signature, what) (empty = oracle satisfied)
    digest(cfg, obj, ref)   -> hashable canonical state key
    free(obj)
"""
import time

from . import pool


class _Expander:
    def __init__(self, model):
        self.model = model

    def __call__(self, task):
        cfg, hist = task
        m = self.model
        out = []
        # enabled ops in the state reached by hist
        obj, ref = m.init(cfg)
        try:
            for op in hist:
                m.apply(cfg, obj, ref, op)
            ops = m.ops(cfg, obj, ref)
        finally:
            m.free(obj)
        for op in ops:
            obj, ref = m.init(cfg)
            try:
                for o in hist:
                    m.apply(cfg, obj, ref, o)
                viol = m.apply(cfg, obj, ref, op)
                dg = m.digest(cfg, obj, ref)
            finally:
                m.free(obj)
            out.append((op, dg, viol))
        return out


def bfs(ctx, model, cfgs, depth, timeout=30.0, max_states=None, label=""):
    """Returns dict(states, transitions, max_depth, complete, outcomes)."""
    exp = _Expander(model)
    total_states = 0
    total_trans = 0
    outcomes = set()
    complete = True
    maxd = 0
    samples = []
    frontier = []
    seen = set()
    for ci, cfg in enumerate(cfgs):
        obj, ref = model.init(cfg)
        d0 = model.digest(cfg, obj, ref)
        model.free(obj)
        seen.add((ci, d0))
        frontier.append((ci, []))
    total_states = len(frontier)
    for d in range(depth):
        if not frontier:
            break
        frontier = ctx.shuffled(frontier)
        tasks = [(cfgs[ci], h) for ci, h in frontier]
        res = pool.run_tasks(exp, tasks, timeout=timeout)
        nxt = []
        bad = []
        for (ci, h), r in zip(frontier, res):
            if r[0] != "ok":
                bad.append((ci, h, r))
                continue
            for op, dg, viol in r[1]:
                total_trans += 1
                for sig, what in viol:
                    ctx.violation(sig, what, {"cfg": cfgs[ci], "history": h + [op]})
                    outcomes.add("V:" + sig)
                if not viol:
                    outcomes.add("ok")
                k = (ci, dg)
                if k not in seen:
                    seen.add(k)
                    total_states += 1
                    nxt.append((ci, h + [op]))
                    if len(samples) < 5 and d >= 1:
                        samples.append({"cfg": cfgs[ci], "history": h + [op]})
        if bad:
            _localize(ctx, model, cfgs, bad, timeout)
        maxd = d + 1
        frontier = nxt
        if max_states and total_states > max_states:
            complete = False
            break
        ctx.note("%s depth %d: states=%d transitions=%d frontier=%d (%.0fs)" % (label, d + 1, total_states, total_trans, len(frontier), ctx.elapsed()))
    return {"states": total_states, "transitions": total_trans, "max_depth": maxd, "complete": complete,
            "frontier_left": len(frontier), "samples": samples}


class _Single:
    def __init__(self, model):
        self.model = model

    def __call__(self, task):
        cfg, hist, op = task
        m = self.model
        obj, ref = m.init(cfg)
        try:
            for o in hist:
                m.apply(cfg, obj, ref, o)
            if op is None:
                m.ops(cfg, obj, ref)
                return []
            v = m.apply(cfg, obj, ref, op)
            m.digest(cfg, obj, ref)
            return v
        finally:
            m.free(obj)


def _localize(ctx, model, cfgs, bad, timeout):
    """An expansion crashed / hung / raised: re-run every enabled operation of that state on its own
    to name the culprit transition."""
    from . import common
    exp = _Single(model)
    tasks = []
    for ci, h, r in bad[:200]:
        # ops cannot be listed if the state itself is the problem; try prefix ops from the parent state
        try:
            obj, ref = model.init(cfgs[ci])
            for o in h:
                model.apply(cfgs[ci], obj, ref, o)
            ops = model.ops(cfgs[ci], obj, ref)
            model.free(obj)
        except Exception:
            ops = [None]
        for op in ops:
            tasks.append((cfgs[ci], h, op))
    res = pool.run_tasks(exp, tasks, timeout=timeout, chunk=1)
    found = 0
    for (cfg, h, op), r in zip(tasks, res):
        if r[0] == "ok":
            continue
        found += 1
        if r[0] == "crash":
            frag, short = common.classify_crash(r[1])
        elif r[0] == "hang":
            frag, short = "hang", "no return within %.0fs" % r[1]
        else:
            frag, short = "exception", str(r[1])[-800:]
        kind = op[0] if op else "state"
        ctx.violation("%s:%s" % (kind, frag), "%s during %s after history %s: %s" % (r[0], op, h, short),
                      {"cfg": cfg, "history": h + ([op] if op else [])})
    if not found:
        for ci, h, r in bad[:5]:
            ctx.violation("expand-unlocalized:%s" % r[0], "expansion failed but no single operation reproduces it: %s" % str(r[1])[-800:],
                          {"cfg": cfgs[ci], "history": h})


def replay(model, case):
    cfg, hist = case["cfg"], case["history"]
    obj, ref = model.init(cfg)
    out = []
    try:
        for i, op in enumerate(hist):
            v = model.apply(cfg, obj, ref, op)
            out.append((op, v))
    finally:
        model.free(obj)
    return out
