"""C12 -- coordinate transformations are mutual inverses and carry the centre of mass.

Lattice: N{1..6} x N_active{1..N} x mass pattern x 2 state sets x {Jacobi, democratic heliocentric, WHDS,
barycentric} x variants, against the textbook definitions evaluated in exact rational arithmetic.
"""
import ctypes
import itertools
from fractions import Fraction as F

from .. import pool, rb
from ..common import nanmax

LEVEL = "exploration"

U = 2.0 ** -53
SYSTEMS = ["jacobi", "democraticheliocentric", "whds", "barycentric"]


def states(kind, N):
    out = []
    for i in range(N):
        if kind == 0:
            out.append([0.37 * i - 0.2 * (i % 2), 0.11 * i * i - 0.5, 0.05 * i - 0.01 * i * i + 0.3,
                        0.2 - 0.13 * i, 0.9 / (1 + i) - 0.1, 0.07 * i - 0.02,
                        0.01 * i - 0.03, -0.02 * i + 0.05, 0.004 * i * i])
        else:
            out.append([1e3 + 1.7 * i, -2e3 + 0.3 * i * i, 5e2 - 0.9 * i,
                        3.0 + 1e-3 * i, -4.0 + 2e-3 * i * i, 1e-5 * (i + 1),
                        1e-4 * (i - 2), 3e-4 * i, -2e-4 * (i + 1)])
    return out


def masses(pattern, N, N_active):
    m = []
    for i in range(N):
        if pattern == "equal":
            m.append(1.0)
        elif pattern == "ratios":
            m.append(1.0 if i == 0 else 10.0 ** (-3 * i))
        elif pattern == "testzero":
            m.append((1.0 if i == 0 else 1e-3 * (i + 1)) if i < N_active else 0.0)
        elif pattern == "zeroactive":
            m.append(1.0 if i == 0 else (0.0 if i == 1 else 1e-3 * i))
        elif pattern == "testmassive":
            m.append(1.0 if i == 0 else 1e-3 * (i + 1))
    return m


def exact_forward(system, m, S, N_active):
    """textbook definition in exact arithmetic. S[i] = 9 Fractions (pos, vel, acc). returns list of 9-vectors, slot0 = (M, X, V, A) as dict"""
    N = len(m)
    M = sum(m[:N_active])
    com = [sum(m[i] * S[i][k] for i in range(N_active)) / M for k in range(9)]
    out = [None] * N
    if system == "jacobi":
        for i in range(1, N):
            na = min(i, N_active)
            Mi = sum(m[:na])
            R = [sum(m[j] * S[j][k] for j in range(na)) / Mi for k in range(9)]
            out[i] = [S[i][k] - R[k] for k in range(9)]
    elif system == "democraticheliocentric":
        for i in range(1, N):
            out[i] = [S[i][k] - S[0][k] for k in range(3)] + [S[i][k] - com[k] for k in range(3, 6)] + [None] * 3
    elif system == "whds":
        for i in range(1, N):
            f = (m[0] + m[i]) / m[0] if i < N_active else 1
            out[i] = [S[i][k] - S[0][k] for k in range(3)] + [f * (S[i][k] - com[k]) for k in range(3, 6)] + [None] * 3
    elif system == "barycentric":
        for i in range(1, N):
            out[i] = [S[i][k] - com[k] for k in range(9)]
    return M, com, out


class Case:
    def __init__(self, rebound):
        self.rebound = rebound
        self.cl = rebound.clibrebound

    def arr(self, N, m=None, S=None, fill=None):
        A = (self.rebound.Particle * N)()
        for i in range(N):
            if fill is not None:
                for a in ("x", "y", "z", "vx", "vy", "vz", "ax", "ay", "az", "m"):
                    setattr(A[i], a, fill)
            if m is not None:
                A[i].m = m[i]
            if S is not None:
                A[i].x, A[i].y, A[i].z, A[i].vx, A[i].vy, A[i].vz, A[i].ax, A[i].ay, A[i].az = S[i]
        return A

    def get(self, A, N):
        return [[A[i].x, A[i].y, A[i].z, A[i].vx, A[i].vy, A[i].vz, A[i].ax, A[i].ay, A[i].az] for i in range(N)], [A[i].m for i in range(N)]

    def __call__(self, task):
        system, N, N_active, pattern, kind = task
        cl = self.cl
        V = []
        tag = "%s N=%d N_active=%d masses=%s state=%d" % (system, N, N_active, pattern, kind)
        m = masses(pattern, N, N_active)
        S = states(kind, N)
        if sum(m[:N_active]) == 0 or m[0] == 0:
            return V, 0
        P = self.arr(N, m, S)
        T = self.arr(N, fill=7.25)      # the transformed set lives in a reused scratch array (ri_whfast.p_jh): stale content everywhere
        c_N, c_Na = ctypes.c_uint(N), ctypes.c_uint(N_active)
        name = system
        scale_p = max(abs(v) for s in S for v in s[:3]) + 1e-300
        scale_v = max(abs(v) for s in S for v in s[3:6]) + 1e-300
        scale_a = max(abs(v) for s in S for v in s[6:9]) + 1e-300
        scales = [scale_p] * 3 + [scale_v] * 3 + [scale_a] * 3
        K = 64.0 * (N + 2)
        # conditioning of the maps: mass ratios amplify rounding in the WHDS velocity factor and in recovering body 0
        mmin = min([x for x in m[:N_active] if x > 0])
        cond = max(1.0, sum(m[:N_active]) / m[0])
        # ---- forward
        if system == "jacobi":
            cl.reb_particles_transform_inertial_to_jacobi_posvelacc(P, T, P, c_N, c_Na)
            hasacc = True
        elif system == "barycentric":
            cl.reb_particles_transform_inertial_to_barycentric_posvel(P, T, c_N, c_Na)
            # (reb_particles_transform_inertial_to_barycentric_acc is declared in rebound.h but not implemented in this tree;
            #  the harness fills the barycentric accelerations from the exact definition so that the inverse acc map can be checked)
            hasacc = False
        else:
            getattr(cl, "reb_particles_transform_inertial_to_%s_posvel" % name)(P, T, c_N, c_Na)
            hasacc = False
        tS, tm = self.get(T, N)
        Fm = [F(x) for x in m]
        FS = [[F(v) for v in s] for s in S]
        M, com, want = exact_forward(system, Fm, FS, N_active)
        ncomp = 9 if hasacc else 6
        if system == "jacobi":
            pass
        # slot 0 carries total mass and centre of mass of the active set
        if not (abs(tm[0] - float(M)) <= 4 * U * float(M)):
            V.append(("slot0-mass:%s" % system, "slot 0 mass %r, total active mass %r [%s]" % (tm[0], float(M), tag)))
        for k in range(ncomp):
            if not (abs(tS[0][k] - float(com[k])) <= K * U * scales[k] * cond):
                V.append(("slot0-com:%s" % system, "slot 0 component %d is %r, centre of mass of the active particles is %r [%s]" % (k, tS[0][k], float(com[k]), tag)))
                break
        for i in range(1, N):
            bad = False
            for k in range(ncomp):
                if want[i][k] is None:
                    continue
                w = float(want[i][k])
                fac = float((Fm[0] + Fm[i]) / Fm[0]) if system == "whds" and i < N_active else 1.0
                if not (abs(tS[i][k] - w) <= K * U * (scales[k] * max(1.0, fac) + abs(w))):
                    V.append(("forward:%s:%s" % (system, "test" if i >= N_active else "active"), "transformed particle %d component %d is %r, the definition gives %r [%s]" % (i, k, tS[i][k], w, tag)))
                    bad = True
                    break
            if bad:
                break
        # forward variants agree (Jacobi: posvel / acc alone)
        if system == "jacobi":
            T2 = self.arr(N, fill=7.25)
            cl.reb_particles_transform_inertial_to_jacobi_posvel(P, T2, P, c_N, c_Na)
            T3 = self.arr(N, fill=7.25)
            cl.reb_particles_transform_inertial_to_jacobi_acc(P, T3, P, c_N, c_Na)
            s2, _ = self.get(T2, N)
            s3, _ = self.get(T3, N)
            for i in range(1, N):
                for k in range(6):
                    w = float(want[i][k])
                    if not (abs(s2[i][k] - w) <= K * U * (scales[k] + abs(w))):
                        V.append(("forward:jacobi-posvel:%s" % ("test" if i >= N_active else "active"), "jacobi_posvel: particle %d component %d is %r, the definition gives %r [%s]" % (i, k, s2[i][k], w, tag)))
                        break
            for i in range(N):
                if s2[i][:6] != tS[i][:6]:
                    V.append(("variants-disagree:jacobi:posvel", "posvel and posvelacc forward maps differ for particle %d: %s vs %s [%s]" % (i, s2[i][:6], tS[i][:6], tag)))
                    break
                if s3[i][6:9] != tS[i][6:9]:
                    V.append(("variants-disagree:jacobi:acc", "acc and posvelacc forward maps differ for particle %d: %s vs %s [%s]" % (i, s3[i][6:9], tS[i][6:9], tag)))
                    break
        # the Jacobi maps take the masses from a separate array (WHFast transforms variational particles with the masses of the
        # real ones): a set whose own .m fields are unrelated numbers must transform exactly like the consistent set
        if system == "jacobi":
            Pg = self.arr(N, None, S)
            for i in range(N):
                Pg[i].m = 0.37 * (i + 1) - 0.5
            for fn, lo, hi in (("posvelacc", 0, 9), ("posvel", 0, 6), ("acc", 6, 9)):
                Tg = self.arr(N, fill=7.25)
                getattr(cl, "reb_particles_transform_inertial_to_jacobi_%s" % fn)(Pg, Tg, P, c_N, c_Na)
                sg, mg = self.get(Tg, N)
                bad = [i for i in range(N) if sg[i][lo:hi] != tS[i][lo:hi]]
                if bad or (fn != "acc" and mg[0] != tm[0]):
                    i = bad[0] if bad else 0
                    V.append(("separate-mass-array:jacobi:%s" % fn, "inertial_to_jacobi_%s with the masses in a separate array: particle %d is %s (slot 0 mass %r), with the masses in the set itself %s (%r) [%s]" % (
                        fn, i, sg[i][lo:hi], mg[0], tS[i][lo:hi], tm[0], tag)))
                    break
            # and back: transformed set with unrelated .m in slots 1.., masses from the separate array
            Tg = self.arr(N, None, tS)
            for i in range(N):
                Tg[i].m = tm[0] if i == 0 else -1.25 * i
            Qc = self.arr(N, m, None)
            cl.reb_particles_transform_jacobi_to_inertial_posvel(Qc, T, P, c_N, c_Na)
            cl.reb_particles_transform_jacobi_to_inertial_acc(Qc, T, P, c_N, c_Na)
            Qg = self.arr(N, None, None, fill=7.25)
            cl.reb_particles_transform_jacobi_to_inertial_posvel(Qg, Tg, P, c_N, c_Na)
            cl.reb_particles_transform_jacobi_to_inertial_acc(Qg, Tg, P, c_N, c_Na)
            qc, _ = self.get(Qc, N)
            qg, _ = self.get(Qg, N)
            for i in range(N):
                if qc[i] != qg[i]:
                    V.append(("separate-mass-array:jacobi:inverse", "jacobi_to_inertial with the masses in a separate array gives %s for particle %d, with consistent masses %s [%s]" % (qg[i], i, qc[i], tag)))
                    break
        # ---- inverse, as the integrators call it (destination pre-loaded with the masses) and into a stale buffer
        for dest in ("masses", "stale"):
            if dest == "masses":
                Q = self.arr(N, m, None, fill=None)
                for i in range(N):
                    Q[i].m = m[i]
            else:
                # left-over content of a reused scratch array; the masses of bodies 1.. are stale too ("in case of merger/mass
                # change" the inverse maps restore them from the transformed set), only m0 is read from the destination
                Q = self.arr(N, fill=7.25)
                Q[0].m = m[0]
            if system == "jacobi":
                if dest == "stale":
                    continue        # Jacobi inverses take the masses from p_mass, which IS the destination in every caller
                cl.reb_particles_transform_jacobi_to_inertial_posvel(Q, T, Q, c_N, c_Na)
                cl.reb_particles_transform_jacobi_to_inertial_acc(Q, T, Q, c_N, c_Na)
            elif system == "barycentric":
                cl.reb_particles_transform_barycentric_to_inertial_posvel(Q, T, c_N, c_Na)
                Ta = self.arr(N, fill=0.0)
                for i in range(N):
                    Ta[i].m = T[i].m
                    src = com if i == 0 else want[i]
                    Ta[i].ax, Ta[i].ay, Ta[i].az = float(src[6]), float(src[7]), float(src[8])
                Qa = self.arr(N, fill=7.25)
                Qa[0].m = m[0]
                cl.reb_particles_transform_barycentric_to_inertial_acc(Qa, Ta, c_N, c_Na)
                for i in range(N):
                    got = (Qa[i].ax, Qa[i].ay, Qa[i].az)
                    amp = cond * (float(M) / mmin if i == 0 else 1.0)
                    if not (nanmax(abs(a - b) for a, b in zip(got, S[i][6:9])) <= K * U * scale_a * max(1.0, amp)):
                        V.append(("roundtrip:barycentric:acc", "barycentric_to_inertial_acc of the exact barycentric accelerations gives %s for particle %d, expected %s [%s]" % (got, i, S[i][6:9], tag)))
                        break
            else:
                getattr(cl, "reb_particles_transform_%s_to_inertial_posvel" % name)(Q, T, c_N, c_Na)
            qS, qm = self.get(Q, N)
            for i in range(N):
                bad = False
                for k in range(ncomp):
                    amp = cond * (float(M) / mmin if (i == 0 and system != "jacobi") else 1.0) if i == 0 else cond
                    if not (abs(qS[i][k] - S[i][k]) <= K * U * scales[k] * max(1.0, amp)):
                        V.append(("roundtrip:%s:%s:%s" % (system, dest, "test" if i >= N_active else ("body0" if i == 0 else "active")),
                                  "inverse(forward(x)) differs from x for particle %d component %d: %r vs %r (destination %s) [%s]" % (i, k, qS[i][k], S[i][k], dest, tag)))
                        bad = True
                        break
                if bad:
                    break
            # position-only inverse agrees with the posvel inverse
            Q2 = self.arr(N, m, None) if dest == "masses" else self.arr(N, fill=7.25)
            Q2[0].m = m[0]
            if dest == "masses":
                for i in range(N):
                    Q2[i].m = m[i]
            if system == "jacobi":
                cl.reb_particles_transform_jacobi_to_inertial_pos(Q2, T, Q2, c_N, c_Na)
            else:
                getattr(cl, "reb_particles_transform_%s_to_inertial_pos" % name)(Q2, T, c_N, c_Na)
            q2, q2m = self.get(Q2, N)
            for i in range(N):
                if not (nanmax(abs(a - b) for a, b in zip(q2[i][:3], qS[i][:3])) <= 4 * U * scale_p * cond):
                    V.append(("variants-disagree:%s:pos" % system, "position-only inverse gives %s, posvel inverse %s for particle %d (destination %s) [%s]" % (q2[i][:3], qS[i][:3], i, dest, tag)))
                    break
            # masses of the destination must be the system's masses afterwards
            if system != "jacobi":
                for i in range(N_active):
                    if abs(qm[i] - m[i]) > 8 * U * float(M) or abs(q2m[i] - m[i]) > 8 * U * float(M):
                        V.append(("inverse-mass:%s:%s" % (system, dest), "after the inverse map particle %d has mass %r / %r, the system's mass is %r (destination %s) [%s]" % (i, qm[i], q2m[i], m[i], dest, tag)))
                        break
        return V, 1


def run(ctx):
    rebound = ctx.use("rel")
    tasks = []
    for system in SYSTEMS:
        for N in range(1, 7):
            for Na in range(1, N + 1):
                for pattern in ("equal", "ratios", "testzero", "zeroactive", "testmassive"):
                    for kind in (0, 1):
                        tasks.append((system, N, Na, pattern, kind))
    tasks = ctx.shuffled(tasks)
    res = pool.run_tasks(Case(rebound), tasks, timeout=60, chunk=64)
    n = 0
    for t, r in zip(tasks, res):
        if r[0] != "ok":
            ctx.violation("case-%s:%s" % (r[0], t[0]), "%s in %s: %s" % (r[0], t, str(r[1])[-600:]), {"task": list(t)})
            continue
        V, k = r[1]
        n += k
        for sig, what in V:
            ctx.violation(sig, what, {"task": list(t)})
    cov = {
        "evaluations": len(tasks), "distinct_nontrivial": n,
        "rule": "4 coordinate systems x N 1..6 x N_active 1..N x 5 mass patterns (equal, 1e-3 ratios down to 1e-15, zero-mass test particles, a zero-mass active body, massive test particles) x 2 state sets; "
                "non-trivial = total active mass and m0 non-zero; forward map vs exact rational definition, slot 0, variants, inverse into a mass-preloaded and into a stale destination",
        "samples": [list(tasks[0]), list(tasks[-1])], "exhaustive": True,
    }
    return ctx.finish(LEVEL, cov, assumptions=[
        "tolerance K*u*scale with K=64(N+2), amplified by M/m0 (and M/m_min for the recovery of body 0 from the centre of mass)",
        "Jacobi inverse maps take their masses from p_mass, which is the destination array in every caller; the other inverses must restore the masses themselves",
    ])


def replay(ctx, case):
    rebound = ctx.use("rel")
    V, _ = Case(rebound)(tuple(case["task"]))
    for v in V:
        print(v)
    return 1 if V else 0
