"""C18 -- the Python classes mirror the C structures and options exactly.

Finite space, enumerated completely: every leaf member of every mirrored structure (DWARF of a -g
build of the working tree vs. ctypes _fields_ of the working tree's Python package) and every key
of every name->value option dictionary / property.
"""
import ctypes
import os
import re

from .. import dwarf

LEVEL = "exploration"

# (C struct, python class path)
PAIRS = [
    ("struct reb_simulation", "Simulation"),
    ("struct reb_particle", "Particle"),
    ("struct reb_orbit", "Orbit"),
    ("struct reb_rotation", "Rotation"),
    ("struct reb_vec3d", "vectors.Vec3dBasic"),
    ("struct reb_vec6d", "vectors.Vec6d"),
    ("struct reb_ode", "integrators.bs.ODE"),
    ("struct reb_variational_configuration", "Variation"),
    ("struct reb_collision", "simulation.CollisionS"),
    ("struct reb_simulationarchive", "Simulationarchive"),
    ("struct reb_server_data", "simulation.ServerData"),
    ("struct reb_hash_pointer_pair", "hash.HashPointerPair"),
    ("struct reb_binary_field_descriptor", "binary_field_descriptor.BinaryFieldDescriptor"),
    ("struct reb_particle_int", "integrators.janus.ParticleInt"),
    ("struct reb_dp7", "integrators.ias15.reb_dp7"),
    ("struct reb_integrator_whfast", "integrators.whfast.IntegratorWHFast"),
    ("struct reb_integrator_whfast512", "integrators.whfast512.IntegratorWHFast512"),
    ("struct reb_integrator_ias15", "integrators.ias15.IntegratorIAS15"),
    ("struct reb_integrator_mercurius", "integrators.mercurius.IntegratorMercurius"),
    ("struct reb_integrator_trace", "integrators.trace.IntegratorTRACE"),
    ("struct reb_integrator_saba", "integrators.saba.IntegratorSABA"),
    ("struct reb_integrator_eos", "integrators.eos.IntegratorEOS"),
    ("struct reb_integrator_bs", "integrators.bs.IntegratorBS"),
    ("struct reb_integrator_janus", "integrators.janus.IntegratorJanus"),
    ("struct reb_integrator_sei", "integrators.sei.IntegratorSEI"),
]

# C member name -> Python field name, where the Python mirror deliberately uses another word.
# (verified by reading both sides; everything else must match after stripping '_' and case)
ALIASES = {
    "gravity_ignore_terms": "gravity_ignore",
    "display_settings": "display_view",
    "calculate_megno": "calculate_megno",
    "tree_root": "tree_root",
    "simulationarchive_filename": "simulationarchive_filename",
    "N_allocated_map": "map_allocated_n",
    "ode_warnings": "odes_warnings",
}

# Python classes that are only ever reached through a pointer handed out by C and that declare a
# prefix of the C structure ("other fields not needed"): trailing C members may be left unmirrored.
PREFIX_ONLY = {"simulation.ServerData"}


def norm(name):
    parts = []
    for seg in name.split("."):
        seg = seg.strip()
        parts.append(re.sub(r"[^a-z0-9]", "", seg.lower()))
    return ".".join(parts)


def ct_kind(t):
    if isinstance(t, type) and issubclass(t, ctypes._CFuncPtr):
        return "fptr"
    if isinstance(t, type) and issubclass(t, (ctypes._Pointer,)):
        return "ptr"
    if t in (ctypes.c_void_p, ctypes.c_char_p, ctypes.c_wchar_p) or (isinstance(t, type) and issubclass(t, (ctypes.c_char_p, ctypes.c_void_p))):
        return "ptr"
    if isinstance(t, type) and issubclass(t, ctypes._SimpleCData):
        code = t._type_
        sz = ctypes.sizeof(t)
        if code in "df":
            return "f%d" % sz
        if code in "bhilq":
            return "i%d" % sz
        if code in "BHILQ?":
            return "u%d" % sz
        if code == "c":
            return "char"
        if code in "zPZO":
            return "ptr"
    return "?" + repr(t)


def ct_leaves(cls, base=0, prefix=""):
    out = []
    for f in cls._fields_:
        name, t = f[0], f[1]
        off = getattr(cls, name).offset + base
        out.extend(_ct_expand(t, off, prefix + name))
    return out


def _ct_expand(t, off, path):
    if isinstance(t, type) and issubclass(t, ctypes.Array):
        et = t._type_
        es = ctypes.sizeof(et)
        out = []
        for i in range(t._length_):
            out.extend(_ct_expand(et, off + i * es, "%s[%d]" % (path, i)))
        return out
    if isinstance(t, type) and issubclass(t, ctypes.Structure):
        return ct_leaves(t, off, path + ".")
    return [{"off": off, "size": ctypes.sizeof(t), "kind": ct_kind(t), "path": path}]


def kinds_compatible(ck, pk, csize):
    if ck == pk:
        return True
    if ck == "enum":
        return pk in ("i4", "u4")
    if ck == "char" and pk in ("char", "i1", "u1"):
        return True
    if ck.startswith("opaque:"):
        return True   # opaque C blobs (pthread_mutex_t ...) only need the right extent
    if ck == "fptr" and pk == "ptr":
        return True   # a c_void_p holding a function pointer is a faithful (if untyped) mirror
    return False


class CLayouts:
    def __init__(self, objdir):
        self.objs = sorted(os.path.join(objdir, f) for f in os.listdir(objdir) if f.endswith(".o"))
        pref = ["rebound.o", "tools.o", "rotations.o", "simulationarchive.o", "output.o", "integrator_bs.o", "integrator_janus.o", "integrator_ias15.o"]
        self.objs.sort(key=lambda p: (pref.index(os.path.basename(p)) if os.path.basename(p) in pref else 99))
        self.cache = {}

    def get(self, what):
        if what in self.cache:
            return self.cache[what]
        for o in self.objs:
            tot, leaves = dwarf.layout(o, what)
            if tot is not None and leaves:
                out = []
                for x in leaves:
                    if x["kind"].startswith("opaque:struct "):
                        st, sl = self.get(x["kind"][len("opaque:"):])
                        if sl and st == x["size"]:
                            for y in sl:
                                out.append({"off": x["off"] + y["off"], "size": y["size"], "kind": y["kind"], "path": x["path"] + "." + y["path"]})
                            continue
                    out.append(x)
                self.cache[what] = (tot, out)
                return tot, out
        self.cache[what] = (None, [])
        return None, []


def compare(cname, pyname, ctot, cl, pycls, report):
    """report(signature, text)"""
    n = 0
    pl = ct_leaves(pycls)
    ptot = ctypes.sizeof(pycls)
    prefix_ok = pyname in PREFIX_ONLY and ptot <= ctot
    if ctot != ptot and not prefix_ok:
        report("size:%s" % cname, "%s is %d bytes in C but %s is %d bytes in Python" % (cname, ctot, pyname, ptot))
    pby = {}
    for x in pl:
        pby.setdefault(x["off"], []).append(x)
    cby = {x["off"]: x for x in cl}
    for c in cl:
        n += 1
        ps = pby.get(c["off"])
        if not ps:
            # is it covered by a python leaf at all?
            cover = [p for p in pl if p["off"] <= c["off"] < p["off"] + p["size"]]
            if prefix_ok and c["off"] >= max(p["off"] + p["size"] for p in pl):
                continue
            if cover:
                report("misaligned:%s.%s" % (cname, c["path"]), "C member %s.%s at offset %d (%s) lies inside Python field %s at %d" % (cname, c["path"], c["off"], c["kind"], cover[0]["path"], cover[0]["off"]))
            else:
                report("unmirrored:%s.%s" % (cname, c["path"]), "C member %s.%s at offset %d size %d has no Python field" % (cname, c["path"], c["off"], c["size"]))
            continue
        p = ps[0]
        if p["size"] != c["size"] and not c["kind"].startswith("opaque:"):
            report("fieldsize:%s.%s" % (cname, c["path"]), "%s.%s is %d bytes in C, Python field %s is %d bytes" % (cname, c["path"], c["size"], p["path"], p["size"]))
        elif not kinds_compatible(c["kind"], p["kind"], c["size"]):
            report("kind:%s.%s" % (cname, c["path"]), "%s.%s is %s in C, Python field %s is %s" % (cname, c["path"], c["kind"], p["path"], p["kind"]))
        cn = norm(c["path"])
        pn = norm(p["path"])
        alias = ".".join(re.sub(r"[^a-z0-9]", "", ALIASES.get(seg, seg).lower()) for seg in re.sub(r"\[(\d+)\]", r"\1", c["path"]).split("."))
        if cn != pn and alias != pn and not c["kind"].startswith("opaque:"):
            report("name:%s.%s" % (cname, c["path"]), "%s.%s at offset %d is called %s in Python (swapped or renamed members?)" % (cname, c["path"], c["off"], p["path"]))
    for p in pl:
        if p["off"] not in cby:
            cover = [c for c in cl if c["off"] <= p["off"] < c["off"] + c["size"]]
            if not (cover and cover[0]["kind"].startswith("opaque:")):
                report("extra:%s.%s" % (pyname, p["path"]), "Python field %s.%s at offset %d has no C member at that offset" % (pyname, p["path"], p["off"]))
    return n


def resolve(rebound, path):
    o = rebound
    import importlib
    parts = path.split(".")
    if len(parts) > 1:
        o = importlib.import_module("rebound." + ".".join(parts[:-1]))
    return getattr(o, parts[-1])


# ---------------------------------------------------------------------------------- options
def option_checks(rebound, enums, report):
    """every named option: python name -> raw value == C enumerator; read back == name"""
    from ctypes import c_int
    n = 0
    sim = rebound.Simulation()
    S = rebound.simulation

    def cval(cname):
        return enums.get(cname)

    def check_enum(label, pyname_to_c, setter, raw_getter, name_getter):
        nonlocal n
        for key, cname in pyname_to_c.items():
            n += 1
            want = cval(cname)
            if want is None:
                report("option-unknown-enumerator:%s:%s" % (label, key), "%s option %r has no C enumerator %s" % (label, key, cname))
                continue
            try:
                setter(key)
            except Exception as e:
                report("option-set-fails:%s:%s" % (label, key), "setting %s = %r raises %s: %s" % (label, key, type(e).__name__, e))
                continue
            raw = raw_getter()
            if raw != want:
                report("option-value:%s:%s" % (label, key), "%s = %r stores %d, C enumerator %s is %d" % (label, key, raw, cname, want))
            try:
                back = name_getter()
            except Exception as e:
                report("option-get-fails:%s:%s" % (label, key), "reading %s after setting %r raises %s" % (label, key, e))
                continue
            if back != key:
                report("option-readback:%s:%s" % (label, key), "%s set to %r reads back as %r" % (label, key, back))

    def cn(prefix, key, special=None):
        if special and key in special:
            return special[key]
        return prefix + re.sub(r"[^A-Z0-9]", "_", key.upper())

    def setsim(attr):
        def f(v):
            s = rebound.Simulation()
            if attr in ("gravity", "collision") and v in ("tree", "linetree"):
                s.configure_box(10.)
            setattr(s, attr, v)
            state["s"] = s
        return f
    state = {"s": sim}

    check_enum("integrator", {k: cn("REB_INTEGRATOR_", k) for k in S.INTEGRATORS}, setsim("integrator"),
               lambda: state["s"]._integrator, lambda: state["s"].integrator)
    check_enum("gravity", {k: cn("REB_GRAVITY_", k) for k in S.GRAVITIES}, setsim("gravity"),
               lambda: state["s"]._gravity, lambda: state["s"].gravity)
    check_enum("collision", {k: cn("REB_COLLISION_", k) for k in S.COLLISIONS}, setsim("collision"),
               lambda: state["s"]._collision, lambda: state["s"].collision)
    check_enum("boundary", {k: cn("REB_BOUNDARY_", k) for k in S.BOUNDARIES}, setsim("boundary"),
               lambda: state["s"]._boundary, lambda: state["s"].boundary)

    from rebound.integrators import whfast, saba, eos, trace

    def raw_at(structobj, field):
        # raw int at the bytes of the named ctypes field, independent of any property of the same name
        d = type(structobj).__dict__.get(field)
        off, size = d.offset, d.size
        return int.from_bytes(ctypes.string_at(ctypes.addressof(structobj) + off, size), "little", signed=False)

    def field_for(cls, cands):
        for c in cands:
            d = cls.__dict__.get(c)
            if d is not None and hasattr(d, "offset"):
                return c
        return None

    def sub(attr, prop, fieldcands):
        def setter(v):
            s = rebound.Simulation()
            setattr(getattr(s, attr), prop, v)
            state["s"] = s

        def raw():
            o = getattr(state["s"], attr)
            f = field_for(type(o), fieldcands)
            return raw_at(o, f)

        def name():
            return getattr(getattr(state["s"], attr), prop)
        return setter, raw, name

    st, rw, nm = sub("ri_whfast", "coordinates", ["_coordinates", "coordinates"])
    check_enum("ri_whfast.coordinates", {k: cn("REB_WHFAST_COORDINATES_", k) for k in whfast.WHFAST_COORDINATES}, st, rw, nm)
    st, rw, nm = sub("ri_whfast", "kernel", ["_kernel", "kernel"])
    check_enum("ri_whfast.kernel", {k: cn("REB_WHFAST_KERNEL_", k) for k in whfast.WHFAST_KERNELS}, st, rw, nm)
    st, rw, nm = sub("ri_saba", "type", ["_type", "type"])
    saba_special = {"10,4": "REB_SABA_10_4", "8,6,4": "REB_SABA_8_6_4", "10,6,4": "REB_SABA_10_6_4",
                    "h8,4,4": "REB_SABA_H_8_4_4", "h8,6,4": "REB_SABA_H_8_6_4", "h10,6,4": "REB_SABA_H_10_6_4"}
    for k in (1, 2, 3, 4):
        saba_special["cm%d" % k] = "REB_SABA_CM_%d" % k
        saba_special["cl%d" % k] = "REB_SABA_CL_%d" % k
    check_enum("ri_saba.type", {k: cn("REB_SABA_", k, saba_special) for k in saba.SABA_TYPES}, st, rw, nm)
    for which in ("phi0", "phi1"):
        st, rw, nm = sub("ri_eos", which, ["_" + which, which])
        check_enum("ri_eos." + which, {k: cn("REB_EOS_", k) for k in eos.EOS_TYPES}, st, rw, nm)
    st, rw, nm = sub("ri_trace", "peri_mode", ["_peri_mode", "peri_mode"])
    check_enum("ri_trace.peri_mode", {k: cn("REB_TRACE_PERI_", k) for k in trace.TRACE_PERI_MODES}, st, rw, nm)

    # function-valued options must be the address of the exported C function of that meaning
    cl = rebound.clibrebound

    def addr(fname):
        return ctypes.cast(getattr(cl, fname), ctypes.c_void_p).value

    def fcheck(label, key, do_set, rawptr, cname):
        nonlocal n
        n += 1
        try:
            do_set()
        except Exception as e:
            report("option-set-fails:%s:%s" % (label, key), "setting %s = %r raises %s: %s" % (label, key, type(e).__name__, e))
            return
        got = rawptr()
        try:
            want = addr(cname)
        except AttributeError:
            report("option-unknown-function:%s:%s" % (label, key), "C function %s not exported" % cname)
            return
        if got != want:
            report("option-function:%s:%s" % (label, key), "%s = %r stores %s, expected &%s = %s" % (label, key, got, cname, want))

    def rawfield(o, f):
        return raw_at(o, f) or None

    for key in ("mercury", "C4", "C5", "infinity"):
        s = rebound.Simulation()
        fcheck("ri_mercurius.L", key, lambda: setattr(s.ri_mercurius, "L", key), lambda: rawfield(s.ri_mercurius, "_L"), "reb_integrator_mercurius_L_" + key)
    s = rebound.Simulation()
    fcheck("ri_trace.S", "default", lambda: setattr(s.ri_trace, "S", "default"), lambda: rawfield(s.ri_trace, "_S"), "reb_integrator_trace_switch_default")
    for key in ("default", "none"):
        s = rebound.Simulation()
        fcheck("ri_trace.S_peri", key, lambda: setattr(s.ri_trace, "S_peri", key), lambda: rawfield(s.ri_trace, "_S_peri"), "reb_integrator_trace_switch_peri_" + key)
    for key in ("merge", "hardsphere", "halt"):
        s = rebound.Simulation()
        fcheck("collision_resolve", key, lambda: setattr(s, "collision_resolve", key), lambda: rawfield(s, "_collision_resolve"), "reb_collision_resolve_" + key)
    return n


def run(ctx):
    rebound = ctx.use("rel")
    dbg = ctx.lib("dbg")
    objdir = os.path.join(dbg, "obj")
    L = CLayouts(objdir)
    members = 0
    structs = 0
    samples = []

    def report(sig, text):
        ctx.violation(sig, text, {"signature": sig})

    for cname, pypath in ctx.shuffled(PAIRS):
        tot, cl = L.get(cname)
        if tot is None:
            report("no-dwarf:%s" % cname, "no DWARF description of %s found" % cname)
            continue
        try:
            cls = resolve(rebound, pypath)
        except Exception as e:
            report("no-python-class:%s" % pypath, "cannot resolve rebound.%s: %s" % (pypath, e))
            continue
        members += compare(cname, pypath, tot, cl, cls, report)
        structs += 1
        if len(samples) < 6:
            samples.append({"struct": cname, "python": pypath, "size": tot, "first_members": [(x["off"], x["size"], x["kind"], x["path"]) for x in cl[:4]]})
    hdr = open(os.path.join(dbg, "include", "rebound.h")).read()
    names = sorted(set(dwarf.enumerators(hdr)))
    enums = {}
    for o in L.objs[:6]:
        got = dwarf.enum_values(o, [n for n in names if n not in enums])
        enums.update(got)
    nopt = option_checks(rebound, enums, report)
    cov = {
        "evaluations": members + nopt,
        "distinct_nontrivial": members + nopt,
        "rule": "one case per leaf member (scalar, pointer, array element; nested structs flattened) of each of %d mirrored structures, taken from the DWARF of a -g build of the working tree, "
                "compared by offset, size, kind (float/signed/unsigned/pointer/function pointer) and normalised name with the ctypes field at the same offset; "
                "plus one case per named option value (set by name, raw integer vs C enumerator of that name, read back)" % structs,
        "samples": samples,
        "structures": structs, "members": members, "option_values": nopt, "c_enumerators_known": len(enums),
        "exhaustive": True,
    }
    return ctx.finish(LEVEL, cov, assumptions=[
        "gdb's ptype /o rendering of the DWARF emitted by gcc -O0 -g describes the layout the release build uses (same compiler, same ABI, no packing pragmas)",
        "enum-typed C members may be mirrored by c_int or c_uint",
        "Python mirrors may use a different word for a member only where listed in ALIASES",
    ])


def replay(ctx, case):
    print("C18 has a finite space; re-run ./check C18 and look for", case.get("signature"))
    return run(ctx)
