"""C09 -- deferred synchronisation never changes the physics.

All call sequences with a bounded number of steps and interposed operations
{synchronize, synchronize twice, energy, orbits, copy-and-continue, save+load-and-continue, archive
snapshot} over every integrator with a deferred half step and its option lattice, in the three
safety modes.  Oracles: keep_unsynchronized => bitwise equal to the pure-steps baseline;
safe_mode on/off equal to rounding (exact drift) or to the scheme's truncation error (EOS);
sync;sync == sync bitwise; safe mode is untouched by any interposed operation.
"""
import math
import os
import struct
import tempfile

from .. import lattice, pool, rb

LEVEL = "model_checking"

OTHERS = ["y", "Y", "E", "O", "C", "L", "A"]     # sync, sync twice, energy, orbits, copy, save+load, archive snapshot
ROUND_TOL = 1e-12       # relative to the length / velocity scale; observed maximum without corrector2 is 3e-14 (recorded in the evidence)
# the second symplectic corrector is an approximate operator whose inverse is applied as "the same with the opposite sign":
# C2^-1 C2 = 1 only up to the corrector's own truncation error (observed 1.8e-12 for every kernel and first corrector)
CORR2_TOL = 1e-10


def sequences(max_steps, max_others):
    out = []

    def rec(seq, s, k):
        if s >= 1:
            out.append(seq)
        if s < max_steps:
            rec(seq + "S", s + 1, k)
        if k < max_others and seq and True:
            for o in OTHERS:
                if o in ("y", "Y") and seq and seq[-1] in ("y", "Y"):
                    continue
                rec(seq + o, s, k + 1)
    rec("", 0, 0)
    # sequences must start with a step or an op; de-duplicate, drop those ending in nothing new
    return sorted(set(out), key=lambda x: (len(x), x))


def pvec(sim):
    """coordinates of all particles; variational particles as the derivative they stand for (stored value x exp(lrescale)):
    safe mode rescales a variation that passes 1e100, while the deferred modes refuse to (documented, with a warning)"""
    n = sim.N
    scale = [1.0] * n
    nreal = n - sim.N_var
    for k in range(sim.N_var_config):
        vc = sim.var_config[k]
        lr = vc._lrescale
        if lr > 0:
            cnt = 1 if vc.testparticle >= 0 else nreal
            for i in range(vc.index, vc.index + cnt):
                scale[i] = math.exp(min(lr, 600.0))
    out = []
    for i in range(n):
        p = sim._particles[i]
        f = scale[i]
        out.append((p.x * f, p.y * f, p.z * f, p.vx * f, p.vy * f, p.vz * f))
    return out


def maxdiff(a, b):
    m = 0.0
    for pa, pb in zip(a, b):
        for x, y in zip(pa, pb):
            d = abs(x - y)
            if d != d:
                return float("inf")
            m = max(m, d)
    return m


class Runner:
    def __init__(self, rebound):
        self.rebound = rebound
        self.tmp = None

    def run_seq(self, cfg, seq):
        """returns (final synchronized particle bytes, particle tuple list, flags)"""
        rebound = self.rebound
        sim, P = lattice.make_sim(rebound, cfg)
        x = cfg.get("x")
        if x in ("var1", "var1big"):
            v = sim.add_variation()
            v.particles[1].x = 1.0
            v.particles[1].vy = 0.3
            v.particles[2].vx = -0.2
            if x == "var1big":
                for p in v.particles:
                    for a in ("x", "y", "z", "vx", "vy", "vz"):
                        setattr(p, a, getattr(p, a) * 2e100)   # > 1e100: the first step rescales
        elif x == "megno":
            sim.init_megno(seed=7)
        notes = []
        for tok in seq:
            if tok == "S":
                sim.step()
            elif tok == "y":
                sim.synchronize()
            elif tok == "Y":
                sim.synchronize()
                a = rb.particles_raw(sim)
                sim.synchronize()
                if rb.particles_raw(sim) != a:
                    notes.append("syncsync")
            elif tok == "E":
                sim.energy()
            elif tok == "O":
                sim.orbits()
            elif tok == "C":
                c = sim.copy()
                lattice.reattach(c, cfg["integ"], cfg.get("o", {}))
                sim = c
            elif tok == "L":
                s = rb.stream(sim)
                c = rebound.Simulation(s)
                lattice.reattach(c, cfg["integ"], cfg.get("o", {}))
                sim = c
            elif tok == "A":
                fd, fn = tempfile.mkstemp(prefix="c09-", suffix=".bin", dir=os.environ.get("VERIF_TMP", "/var/tmp"))
                os.close(fd)
                os.unlink(fn)
                try:
                    sim.save_to_file(fn)
                finally:
                    if os.path.exists(fn):
                        os.unlink(fn)
        sim.synchronize()
        a = rb.particles_raw(sim)
        sim.synchronize()
        if rb.particles_raw(sim) != a:
            notes.append("syncsync")
        return a, pvec(sim), notes, sim.t

    def __call__(self, task):
        cfg0, seqs = task
        rb.quiet()
        V = []
        integ = cfg0["integ"]
        lab = lattice.cfg_label(cfg0)
        obs = {"max_round": 0.0, "max_round_corr2": 0.0, "runs": 0}
        if cfg0.get("x"):
            lab += "/" + cfg0["x"]
        G, bodies, P = lattice.system(cfg0.get("sys", "S3"))
        scale = max(max(abs(b[k]) for k in (1, 2, 3)) for b in bodies)
        vscale = max(max(abs(b[k]) for k in (4, 5, 6)) for b in bodies)
        modes = [("safe", {"safe_mode": 1}), ("unsafe", {"safe_mode": 0})]
        if integ in ("whfast", "saba", "whfast512"):
            modes.append(("keep", {"safe_mode": 0, "keep_unsynchronized": 1}))
        if integ == "whfast512":
            modes = [("unsafe", {}), ("keep", {"keep_unsynchronized": 1})]
        base = {}
        trunc = {}
        for mname, mo in modes:
            cfg = dict(cfg0, o=dict(cfg0.get("o", {}), **mo))
            for n in range(1, 5):
                base[(mname, n)] = self.run_seq(cfg, "S" * n)
        if integ == "eos":
            # the scheme's own truncation error over n steps: difference to 2n steps of half the size, safe mode
            cfgs = dict(cfg0, o=dict(cfg0.get("o", {}), safe_mode=1))
            half = dict(cfgs, dtfac=0.5 * cfg0.get("dtfac", 1.0))
            for n in range(1, 5):
                r2 = self.run_seq(half, "S" * (2 * n))
                trunc[n] = maxdiff(base[("safe", n)][1], r2[1])
        # deferred modes against safe mode on plain steps (synchronised at the end)
        if integ != "eos":
            c2 = bool(cfg0.get("o", {}).get("corrector2"))
            for mname, mo in modes:
                if mname == "safe" or ("safe", 1) not in base:
                    continue
                worst = (0.0, 0, 0.0)
                for n in range(1, 5):
                    spv = base[("safe", n)][1]
                    d = maxdiff(base[(mname, n)][1], spv)
                    big = max([abs(v) for p in spv for v in p] + [scale, vscale])
                    if d / big > worst[0]:
                        worst = (d / big, n, d)
                if worst[0] > (CORR2_TOL if c2 else ROUND_TOL):
                    mag = int(math.floor(math.log10(worst[0]))) if worst[0] < float("inf") else 99
                    V.append(("deferred-vs-safe:%s:%s:1e%d" % (integ + ("/" + cfg0["x"] if cfg0.get("x") else ""), mname, mag),
                              "plain steps in mode %s, synchronised at the end, differ from safe mode by up to %.3g (relative %.3g, after %d steps) [%s]" % (mname, worst[2], worst[0], worst[1], lab)))
        for mname, mo in modes:
            cfg = dict(cfg0, o=dict(cfg0.get("o", {}), **mo))
            for seq in seqs:
                n = seq.count("S")
                if mname == "keep" and False:
                    pass
                raw, pv, notes, t = self.run_seq(cfg, seq)
                obs["runs"] += 1
                if "syncsync" in notes:
                    V.append(("sync-twice-differs:%s:%s" % (integ, mname), "synchronising twice differs from synchronising once [%s mode %s sequence %s]" % (lab, mname, seq)))
                braw, bpv, _, bt = base[(mname, n)]
                if t != bt:
                    V.append(("time-differs:%s:%s" % (integ, mname), "t=%r after sequence %s but %r after %d plain steps [%s mode %s]" % (t, seq, bt, n, lab, mname)))
                if mname in ("safe", "keep"):
                    # bitwise: interposed outputs / copies / snapshots must not change the trajectory by a single bit
                    if raw != braw:
                        d = maxdiff(pv, bpv)
                        V.append(("not-bitwise:%s:%s:%s" % (integ, mname, "".join(sorted(set(seq) - {"S"}))),
                                  "sequence %s changes the synchronised final state (max diff %.3g) relative to %d plain steps [%s mode %s]" % (seq, d, n, lab, mname)))
                else:
                    # safe_mode=0 without keep: interposed synchronisations re-split merged drifts; compare with safe mode
                    spv = base[("safe", n)][1] if ("safe", n) in base else bpv
                    d = maxdiff(pv, spv)
                    big = max([abs(v) for p in spv for v in p] + [scale, vscale])   # variational particles may be large
                    rel = d / big
                    if integ == "eos":
                        bound = 20 * trunc[n] + ROUND_TOL * max(scale, vscale)
                        if not (d <= bound):
                            V.append(("unsafe-vs-safe:%s" % integ, "safe_mode=0 differs from safe mode by %.3g after sequence %s; the scheme's own truncation error over these steps is %.3g [%s]" % (d, seq, trunc[n], lab)))
                    else:
                        c2 = bool(cfg0.get("o", {}).get("corrector2"))
                        obs["max_round_corr2" if c2 else "max_round"] = max(obs["max_round_corr2" if c2 else "max_round"], rel)
                        if not (rel <= (CORR2_TOL if c2 else ROUND_TOL)):
                            V.append(("unsafe-vs-safe:%s" % integ, "safe_mode=0 differs from safe mode by %.3g (relative %.3g) after sequence %s; the merged drift is exact, so only rounding is allowed [%s]" % (d, rel, seq, lab)))
        return V, obs


def configs(tier, avx):
    out = []
    for w in lattice.whfast_points():
        out.append(("whfast", w))
    for t in lattice.SABA_TYPES:
        out.append(("saba", {"type": t}))
    for L in (("mercury", "C4", "C5", "infinity") if tier == "thorough" else ("mercury", "infinity")):
        out.append(("mercurius", {"L": L}))
    for p0 in lattice.EOS_TYPES:
        for p1 in ("lf", "lf4"):
            out.append(("eos", {"phi0": p0, "phi1": p1, "n": 2}))
    cfgs = []
    # WHFast with variational particles (Jacobi coordinates, default kernel only), incl. one whose variations cross the 1e100 rescaling threshold
    for x in ("var1", "var1big", "megno"):
        for c in (0, 11):
            cfgs.append({"integ": "whfast", "o": {"coordinates": "jacobi", "kernel": "default", "corrector": c, "corrector2": 0}, "sys": "S3", "tp": 0, "dtsign": 1, "x": x})
    for integ, o in out:
        for tp in ((0,) if tier == "quick" else (0, 1, 2)):
            cfgs.append({"integ": integ, "o": o, "sys": "S3", "tp": tp, "dtsign": 1})
        if tier == "thorough":
            cfgs.append({"integ": integ, "o": o, "sys": "S3", "tp": 0, "dtsign": -1})
    return cfgs


class Callbacks:
    """user callbacks that change particles or add forces: deferred synchronisation must give the result of safe mode (the
    library re-reads the particles after a modification callback; position-dependent extra forces commute with merging kicks)"""
    def __init__(self, rebound):
        self.rebound = rebound

    def run1(self, integ, o, family, nsteps, boost, dtfac=1.0):
        rebound = self.rebound
        sim, P = lattice.make_sim(rebound, {"integ": integ, "o": o, "sys": "S3", "tp": 0, "dtsign": 1, "dtfac": dtfac})
        if boost:
            for p in sim.particles:
                p.vx += 0.3
                p.x += 0.7
        keep = []
        if family in ("post", "pre"):
            def cb(simp):
                s_ = simp.contents
                p = s_._particles[1]
                p.vx *= (1 - 1e-3)
                p.vy *= (1 - 1e-3)
                s_._particles[2].m *= (1 + 1e-4)
            keep.append(cb)
            if family == "post":
                sim.post_timestep_modifications = cb
            else:
                sim.pre_timestep_modifications = cb
        else:
            def frc(simp):
                s_ = simp.contents
                for i in range(s_.N):
                    p = s_._particles[i]
                    p.ax += -1e-3 * p.x
                    p.ay += -2e-3 * p.y
            keep.append(frc)
            sim.additional_forces = frc
        sim.steps(nsteps)
        sim.synchronize()
        return pvec(sim)

    def __call__(self, task):
        integ, o, family, boost = task
        rb.quiet()
        o_safe = dict(o, safe_mode=1)
        o_safe.pop("keep_unsynchronized", None)
        V = []
        for nsteps in (1, 7, 40):
            a = self.run1(integ, o_safe, family, nsteps, boost)
            b = self.run1(integ, dict(o, safe_mode=0), family, nsteps, boost)
            sc = max(abs(x) for p in a for x in p)
            d = maxdiff(a, b)
            bound = 1e-11 * sc * nsteps
            extra = ""
            if integ == "eos":
                # the merged drift of EOS is itself approximate: allow the scheme's own truncation error over these steps
                # (n steps against 2n steps of half the size, both in safe mode), as for the plain sequences above
                trunc = maxdiff(a, self.run1(integ, o_safe, family, 2 * nsteps, boost, 0.5))
                bound += 20 * trunc
                extra = "; the scheme's own truncation error over these steps is %.3g" % trunc
            if not d <= bound:
                V.append(("callback:%s:unsafe-vs-safe:%s%s" % (family, integ, ":boosted" if boost else ""),
                          "%s%s with a %s callback: safe_mode=0 differs from safe mode by %.3g (relative %.3g) after %d steps%s%s" % (
                              integ, o, {"post": "post_timestep_modifications", "pre": "pre_timestep_modifications", "forces": "position-dependent additional_forces"}[family], d, d / sc, nsteps,
                              " (system displaced and boosted)" if boost else "", extra)))
                break
        return V


class Reversal:
    """steps in one direction, then integrate() in the other one: the pending sub-steps of the deferred modes belong to the old
    direction; safe_mode=0 must give the result of safe mode"""
    def __init__(self, rebound):
        self.rebound = rebound

    def run1(self, integ, o, k, exact, again, dtsign, dtfac=1.0):
        sim, P = lattice.make_sim(self.rebound, {"integ": integ, "o": o, "sys": "S3", "tp": 0, "dtsign": dtsign, "dtfac": dtfac})
        dt0 = sim.dt / dtfac
        sim.steps(int(round(k / dtfac)))
        sim.integrate(sim.t - 2.5 * dt0, exact_finish_time=exact)
        if again:
            sim.integrate(sim.t + 3.5 * dt0, exact_finish_time=exact)
        sim.synchronize()
        return pvec(sim), sim.t

    def __call__(self, task):
        integ, o, k, exact, again, dtsign = task
        rb.quiet()
        o_safe = dict(o, safe_mode=1)
        a, ta = self.run1(integ, o_safe, k, exact, again, dtsign)
        b, tb = self.run1(integ, dict(o, safe_mode=0), k, exact, again, dtsign)
        sc = max(abs(x) for p in a for x in p)
        d = maxdiff(a, b)
        bound = 1e-11 * sc * (k + 8)
        extra = ""
        if integ == "eos":
            h, th = self.run1(integ, o_safe, k, exact, again, dtsign, 0.5)
            trunc = maxdiff(a, h) if th == ta else float("inf")
            if exact == 0 and th != ta:
                trunc = None
            if trunc is not None:
                bound += 20 * trunc
                extra = "; the scheme's own truncation error over this history is %.3g" % trunc
            else:
                return []
        V = []
        what = "%d step(s), then integrate() %s by 2.5 steps%s, exact_finish_time=%d, %s initial dt" % (
            k, "back", " and forth again by 3.5 steps" if again else "", exact, "positive" if dtsign > 0 else "negative")
        if ta != tb:
            V.append(("reversal:time-differs:%s" % integ, "%s%s: %s: safe mode ends at t=%r, safe_mode=0 at t=%r" % (integ, o, what, ta, tb)))
        if not d <= bound:
            V.append(("reversal:unsafe-vs-safe:%s" % integ, "%s%s: %s: safe_mode=0 differs from safe mode by %.3g (relative %.3g)%s" % (integ, o, what, d, d / sc, extra)))
        return V


class Recalc:
    """WHFast / MERCURIUS in deferred mode with the 'recalculate coordinates' request raised repeatedly between blocks of steps
    (no particle touched): the library has to synchronise before it re-reads the particles, every time"""
    def __init__(self, rebound):
        self.rebound = rebound

    def run1(self, integ, o, nreq):
        sim, P = lattice.make_sim(self.rebound, {"integ": integ, "o": o, "sys": "S3", "tp": 0, "dtsign": 1})
        ri = sim.ri_whfast if integ == "whfast" else sim.ri_mercurius
        sim.steps(3)
        for k in range(nreq):
            ri.recalculate_coordinates_this_timestep = 1
            sim.steps(2 + k)
        sim.synchronize()
        return pvec(sim)

    def __call__(self, task):
        integ, o, nreq = task
        rb.quiet()
        a = self.run1(integ, dict(o, safe_mode=1), nreq)
        b = self.run1(integ, dict(o, safe_mode=0), nreq)
        sc = max(abs(x) for p in a for x in p)
        d = maxdiff(a, b)
        if not d <= 1e-11 * sc * (4 + 3 * nreq):
            return [("recalculate:unsafe-vs-safe:%s" % integ, "%s%s with recalculate_coordinates_this_timestep raised %d time(s) between blocks of steps: safe_mode=0 differs from safe mode by %.3g (relative %.3g)" % (integ, o, nreq, d, d / sc))]
        return []


class GetExact:
    """Simulationarchive.getSimulation(t, mode='exact') on an archive written in deferred mode: the returned simulation, synchronised,
    is the safe-mode run integrated to t"""
    def __init__(self, rebound):
        self.rebound = rebound

    def __call__(self, task):
        import tempfile
        integ, o, tfrac = task
        rb.quiet()
        rebound = self.rebound
        sim, P = lattice.make_sim(rebound, {"integ": integ, "o": dict(o, safe_mode=0), "sys": "S3", "tp": 0, "dtsign": 1})
        dt = sim.dt
        fd, fn = tempfile.mkstemp(prefix="c09-", suffix=".bin", dir=os.environ.get("VERIF_TMP", "/var/tmp"))
        os.close(fd)
        os.unlink(fn)
        try:
            sim.save_to_file(fn, step=5, delete_file=True)
            sim.integrate(16.5 * dt, exact_finish_time=0)        # (the automatic snapshots are taken by integrate(), not by steps())
            sa = rebound.Simulationarchive(fn)
            t = tfrac * dt
            got = sa.getSimulation(t, mode="exact")
            got.synchronize()
            gv, gt = pvec(got), got.t
        finally:
            if os.path.exists(fn):
                os.unlink(fn)
        ref, _ = lattice.make_sim(rebound, {"integ": integ, "o": dict(o, safe_mode=1), "sys": "S3", "tp": 0, "dtsign": 1})
        ref.integrate(t, exact_finish_time=1)
        rv = pvec(ref)
        V = []
        if not abs(gt - t) <= 1e-12 * abs(t):
            V.append(("getsimulation-exact:time:%s" % integ, "getSimulation(%r, mode='exact') returns t=%r [%s%s, archive written with safe_mode=0]" % (t, gt, integ, o)))
        sc = max(abs(x) for p in rv for x in p)
        d = maxdiff(gv, rv)
        if not d <= 1e-11 * sc * 20:
            V.append(("getsimulation-exact:unsafe-vs-safe:%s" % integ, "getSimulation(t=%.4g dt, mode='exact') on an archive written with safe_mode=0 differs from the safe-mode run to that time by %.3g (relative %.3g) [%s%s]" % (tfrac, d, d / sc, integ, o)))
        return V


def run(ctx):
    rebound = ctx.use("rel")
    cfgs = configs(ctx.tier, False)
    seqs = sequences(4, 2)
    if ctx.tier == "thorough":
        seqs3 = sequences(4, 3)
    tasks = []
    for i, cfg in enumerate(cfgs):
        use = seqs
        if ctx.tier == "thorough" and cfg["tp"] == 0 and cfg["dtsign"] == 1:
            use = seqs3
        # split into chunks so that 16 workers stay busy
        for j in range(0, len(use), 600):
            tasks.append((cfg, use[j:j + 600]))
    tasks = ctx.shuffled(tasks)
    res = pool.run_tasks(Runner(rebound), tasks, timeout=600, chunk=1, progress=lambda d, n: ctx.note("chunks %d/%d" % (d, n)))
    runs = 0
    maxr = 0.0
    maxr2 = 0.0
    for (cfg, sq), r in zip(tasks, res):
        if r[0] != "ok":
            ctx.violation("run-%s:%s" % (r[0], cfg["integ"]), "%s while running sequences for %s: %s" % (r[0], lattice.cfg_label(cfg), str(r[1])[-800:]), {"cfg": cfg, "seqs": sq[:50]})
            continue
        V, obs = r[1]
        runs += obs["runs"]
        maxr = max(maxr, obs["max_round"])
        maxr2 = max(maxr2, obs["max_round_corr2"])
        for sig, what in V:
            ctx.violation(sig, what, {"cfg": cfg, "seqs": sq})
    # user callbacks
    cbt = []
    for integ, o in [("whfast", {"coordinates": c}) for c in ("jacobi", "democraticheliocentric", "whds", "barycentric")] + [("whfast", {"corrector": 11}), ("whfast", {"kernel": "lazy", "corrector": 17}),
                     ("saba", {"type": "10,6,4"}), ("saba", {"type": "cl4"}), ("saba", {"type": "2"}), ("mercurius", {}), ("eos", {"phi0": "lf4", "phi1": "lf", "n": 2}), ("eos", {"phi0": "pmlf4", "phi1": "lf4", "n": 2})]:
        for family in ("post", "pre", "forces"):
            for boost in (False, True):
                cbt.append((integ, o, family, boost))
    cres = pool.run_tasks(Callbacks(rebound), cbt, timeout=300, chunk=1)
    for t, r in zip(cbt, cres):
        if r[0] != "ok":
            ctx.violation("callback-%s:%s" % (r[0], t[0]), "%s in callback case %s: %s" % (r[0], t, str(r[1])[-400:]), {"callback": [t[0], t[1], t[2], t[3]]})
            continue
        for sig, what in r[1]:
            ctx.violation(sig, what, {"callback": [t[0], t[1], t[2], t[3]]})
    # change of direction while sub-steps are pending
    CB_INTEGS = [("whfast", {"coordinates": c}) for c in ("jacobi", "democraticheliocentric", "whds", "barycentric")] + [("whfast", {"corrector": 11}), ("whfast", {"kernel": "lazy", "corrector": 17}),
                 ("saba", {"type": "10,6,4"}), ("saba", {"type": "cl4"}), ("saba", {"type": "2"}), ("mercurius", {}), ("eos", {"phi0": "lf4", "phi1": "lf", "n": 2}), ("eos", {"phi0": "pmlf4", "phi1": "lf4", "n": 2})]
    rvt = [(integ, o, k, exact, again, dtsign) for integ, o in CB_INTEGS for k in (1, 2, 3) for exact in (0, 1) for again in (False, True) for dtsign in (1, -1)]
    rres = pool.run_tasks(Reversal(rebound), rvt, timeout=300, chunk=4)
    for t, r in zip(rvt, rres):
        if r[0] != "ok":
            ctx.violation("reversal-%s:%s" % (r[0], t[0]), "%s in reversal case %s: %s" % (r[0], t, str(r[1])[-400:]), {"reversal": list(t)})
            continue
        for sig, what in r[1]:
            ctx.violation(sig, what, {"reversal": list(t)})
    # repeated recalculation requests; getSimulation(mode='exact')
    rct = [(integ, o, n) for integ, o in CB_INTEGS if integ in ("whfast", "mercurius") for n in (1, 2, 4)]
    rcres = pool.run_tasks(Recalc(rebound), rct, timeout=300, chunk=2)
    get = [(integ, o, tf) for integ, o in CB_INTEGS if integ in ("whfast", "saba") for tf in (7.3123, 10.0, 12.5, 3.999)]
    gres = pool.run_tasks(GetExact(rebound), get, timeout=300, chunk=2)
    for fam, ts, rs in (("recalc", rct, rcres), ("getexact", get, gres)):
        for t, r in zip(ts, rs):
            if r[0] != "ok":
                ctx.violation("%s-%s:%s" % (fam, r[0], t[0]), "%s in %s case %s: %s" % (r[0], fam, t, str(r[1])[-400:]), {fam: list(t)})
                continue
            for sig, what in r[1]:
                ctx.violation(sig, what, {fam: list(t)})
    # WHFast512 exists only in the AVX512 build: its part runs in a process of its own (mc/w512.py)
    from .. import w512
    n_w512 = w512.run(ctx, "C09")
    cov = {
        "whfast512_cases": n_w512,
        "states": runs, "transitions": runs * 3, "traces_validated_against_impl": runs,
        "samples": [{"cfg": cfgs[0], "sequences": seqs[:12]}, {"cfg": cfgs[-1], "sequences": seqs[-5:]}],
        "callback_cases": len(cbt), "reversal_cases": len(rvt), "recalculation_cases": len(rct), "getsimulation_exact_cases": len(get), "configs": len(cfgs), "sequences_per_config_and_mode": len(seqs), "max_steps": 4, "max_interposed": 2 if ctx.tier == "quick" else 3,
        "observed_max_relative_rounding_difference": maxr, "rounding_tolerance": ROUND_TOL,
        "observed_max_relative_difference_with_corrector2": maxr2, "corrector2_tolerance": CORR2_TOL,
        "exhaustive": True,
        "rule": "every token string over S(step) and {y sync, Y sync twice, E energy, O orbits, C copy-and-continue, L save+load-and-continue, A archive snapshot} with 1..4 steps and at most the stated number of other "
                "tokens, for every valid WHFast kernel x corrector x corrector2 x coordinates point, 18 SABA types, MERCURIUS switching functions and 18 EOS splittings, in safe / unsafe / keep_unsynchronized mode",
    }
    return ctx.finish(LEVEL, cov, assumptions=[
        "rounding tolerance %.0e relative to the system's length/velocity scale for exact-drift schemes (observed maximum reported)" % ROUND_TOL,
        "EOS: |unsafe - safe| <= 20 x (difference between n steps and 2n half steps in safe mode), the scheme's own truncation error",
        "WHFast512 is covered only when the AVX512 build is requested (thorough tier of C01/C03)",
    ])


def replay(ctx, case):
    rebound = ctx.use("rel")
    if "callback" in case:
        V = Callbacks(rebound)(tuple(case["callback"]))
    elif "reversal" in case:
        V = Reversal(rebound)(tuple(case["reversal"]))
    elif "recalc" in case:
        V = Recalc(rebound)(tuple(case["recalc"]))
    elif "getexact" in case:
        V = GetExact(rebound)(tuple(case["getexact"]))
    else:
        V, obs = Runner(rebound)((case["cfg"], case["seqs"]))
    for v in V[:20]:
        print(v)
    return 1 if V else 0
