"""C06 -- every archive snapshot equals the live state when taken, under any history.

(H) every sequence over a structural operation alphabet up to a depth, a snapshot appended after every
    operation; reference model = list of the serialised live states; after *every* append all snapshots
    are re-read and compared with the model.
(A) automatic cadence: interval / step cadences x fixed-step integrators x legs, against a model of the
    prescribed cadence and a lock-step reference run.
"""
import itertools
import os
import tempfile

from .. import lattice, pool, rb

LEVEL = "model_checking"
ASAN = True

OPS = ["step", "add", "remove1", "remove_last", "remove_all", "to_ias15", "to_whfast", "to_mercurius", "to_janus", "to_bs", "to_trace", "to_saba", "to_whfast_unsafe",
       "reset", "halve_dt", "edit_last", "edit_p1", "add_var", "megno", "add_overlap", "set_softening", "rewind", "blow_var"]
CADENCE_IGNORED = {47, 48, 102, 135, 136, 11, 145}


def tmpname():
    fd, fn = tempfile.mkstemp(prefix="c06-", suffix=".bin", dir=os.environ.get("VERIF_TMP", "/var/tmp"))
    os.close(fd)
    os.unlink(fn)
    return fn


class Hist:
    def __init__(self, rebound):
        self.rebound = rebound
        self.names = None

    def start(self, start):
        rebound = self.rebound
        sim = rebound.Simulation()
        G, bodies, P = lattice.system("S3")
        for b in bodies:
            sim.add(m=b[0], x=b[1], y=b[2], z=b[3], vx=b[4], vy=b[5], vz=b[6], r=1e-4)
        sim.dt = P / 20.
        if start == "whfast_unsafe":
            sim.integrator = "whfast"
            sim.ri_whfast.safe_mode = 0
        elif start.endswith("_var"):
            # the first snapshot already holds a variational configuration (later ones differ from it in single members only)
            sim.integrator = start[:-4]
            v = sim.add_variation()
            v.particles[1].x = 1.0
        else:
            sim.integrator = start
        sim.collision = "direct"
        sim.collision_resolve = "merge"
        return sim

    def snap(self, sim):
        f = rb.fields_masked(rb.stream(sim))
        f.pop(87, None)
        return f

    def enabled(self, st, op):
        """st: abstract bookkeeping dict; keeps the history inside documented usage"""
        if st["var"] and op in ("add", "remove1", "remove_last", "add_overlap", "add_var", "megno", "to_janus", "to_mercurius", "to_trace", "to_saba", "to_whfast_unsafe", "remove_all"):
            return False
        if op in ("add_var", "megno") and st["integ"] not in ("ias15", "whfast"):
            return False
        if op in ("add_var", "megno") and st["N"] < 2:
            return False
        if op in ("remove1",) and st["N"] < 3:
            return False
        if op == "remove_last" and st["N"] < 2:
            return False
        if op == "edit_p1" and st["N"] < 3:
            return False
        if op in ("edit_last", "add_overlap") and st["N"] < 2:
            return False
        if op == "step" and st["N"] < 1:
            return False
        if op.startswith("to_") and st["N"] < 2:
            return False
        if op == "to_bs" and st["var"] == "megno":
            return False
        if op == "add_overlap" and st["overlap"]:
            return False
        if op == "rewind" and not st.get("moved"):
            return False        # only after the clock has left the time of the first snapshot
        if op == "blow_var" and st["var"] != "var":
            return False
        return True

    def apply(self, sim, st, op):
        rebound = self.rebound
        if op == "step":
            sim.step()
            st["overlap"] = False
            st["moved"] = True
            st["N"] = sim.N - sim.N_var
        elif op == "add":
            sim.synchronize()
            a = 7.3 * (1. + 0.31 * st["adds"])
            st["adds"] += 1
            sim.add(m=1e-5, x=a, vy=(sim.G / a) ** 0.5, z=0.01 * a, r=1e-4)
            st["N"] += 1
        elif op == "add_overlap":
            sim.synchronize()
            p = sim.particles[sim.N - 1]
            sim.add(m=1e-6, x=p.x + 1e-5, y=p.y, z=p.z, vx=p.vx - 1e-3, vy=p.vy, vz=p.vz, r=1e-4)
            st["N"] += 1
            st["overlap"] = True
        elif op == "remove1":
            sim.synchronize()
            sim.remove(index=1)
            st["N"] -= 1
        elif op == "remove_last":
            sim.synchronize()
            sim.remove(index=sim.N - 1)
            st["N"] -= 1
        elif op == "remove_all":
            del sim.particles
            st["N"] = 0
            st["var"] = None
        elif op.startswith("to_"):
            sim.synchronize()
            name = op[3:]
            if name == "whfast_unsafe":
                sim.integrator = "whfast"
                sim.ri_whfast.safe_mode = 0
            else:
                sim.integrator = name
                if name == "whfast":
                    sim.ri_whfast.safe_mode = 1
            st["integ"] = "whfast" if name.startswith("whfast") else name
        elif op == "reset":
            sim.synchronize()
            rebound.clibrebound.reb_simulation_reset_integrator(rebound.simulation.byref(sim))
        elif op == "halve_dt":
            sim.synchronize()
            sim.dt = sim.dt * 0.5
        elif op == "set_softening":
            sim.synchronize()
            sim.softening = 1e-6 if sim.softening == 0 else 0.
        elif op == "edit_last":
            sim.synchronize()
            p = sim.particles[sim.N - sim.N_var - 1]
            p.vz += 1e-3 * (abs(p.vx) + abs(p.vy))
            sim.ri_whfast.recalculate_coordinates_this_timestep = 1
            sim.ri_mercurius.recalculate_coordinates_this_timestep = 1
            sim.ri_janus.recalculate_integer_coordinates_this_timestep = 1
        elif op == "edit_p1":
            sim.synchronize()
            p = sim.particles[1]
            p.m *= 1.25
            p.vx += 1e-3 * (abs(p.vx) + abs(p.vy))
            sim.ri_whfast.recalculate_coordinates_this_timestep = 1
            sim.ri_mercurius.recalculate_coordinates_this_timestep = 1
            sim.ri_mercurius.recalculate_r_crit_this_timestep = 1
            sim.ri_janus.recalculate_integer_coordinates_this_timestep = 1
        elif op == "add_var":
            sim.synchronize()
            sim.add_variation()
            st["var"] = "var"
        elif op == "megno":
            sim.synchronize()
            sim.init_megno(seed=5)
            st["var"] = "megno"
        elif op == "rewind":
            # the clock returns to exactly the time of the first snapshot (as after integrating back to the start): a delta
            # snapshot then carries no time field at all
            sim.synchronize()
            sim.t = st["t_first"]
            st["moved"] = False
        elif op == "blow_var":
            # a variational particle beyond the rescaling threshold: the next step rescales it and records that in lrescale
            sim.synchronize()
            sim.particles[sim.N - sim.N_var].x = 3e100
        else:
            raise ValueError(op)

    def __call__(self, task):
        start, hist = task[:2]
        pre = task[2] if len(task) > 2 else 0
        rb.quiet()
        rebound = self.rebound
        if self.names is None:
            self.names = rb.field_names()
        V = []
        fn = tmpname()
        try:
            sim = self.start(start)
            st = {"N": sim.N - sim.N_var, "var": "var" if start.endswith("_var") else None, "integ": "whfast" if start.startswith("whfast") else start.replace("_var", ""), "adds": 0, "overlap": False}
            model = []
            if pre:
                # the first snapshot is taken from a simulation that has already stepped (its integrator arrays exist)
                sim.steps(pre)
            sim.save_to_file(fn)
            st["t_first"] = sim.t
            model.append((sim.t, self.snap(sim)))
            for i, op in enumerate(hist):
                if not self.enabled(st, op):
                    return None
                try:
                    self.apply(sim, st, op)
                except RuntimeError as e:
                    # an operation the library itself refuses is not part of the explored space
                    return ("refused", op, str(e)[:100])
                sim.save_to_file(fn)
                rb.drain_messages(sim)
                model.append((sim.t, self.snap(sim)))
                # after *every* append: re-open and compare every snapshot
                try:
                    sa = rebound.Simulationarchive(fn)
                except Exception as e:
                    V.append(("open-fails:%s" % op, "archive cannot be opened after history %s from %s: %s" % (hist[:i + 1], start, e)))
                    break
                if sa.nblobs != len(model):
                    V.append(("nblobs:after-%s" % op, "archive reports %d snapshots, %d were written; history %s from %s" % (sa.nblobs, len(model), hist[:i + 1], start)))
                    break
                bad = False
                for k in range(len(model)):
                    if sa.t[k] != model[k][0]:
                        V.append(("t[k]:after-%s" % op, "sa.t[%d]=%r but the snapshot was taken at t=%r; history %s from %s" % (k, sa.t[k], model[k][0], hist[:i + 1], start)))
                        bad = True
                        break
                    try:
                        s = sa[k]
                    except Exception as e:
                        V.append(("load-fails:after-%s" % op, "snapshot %d cannot be loaded after history %s from %s: %s" % (k, hist[:i + 1], start, str(e)[:200])))
                        bad = True
                        break
                    f = rb.fields_masked(rb.stream(s))
                    f.pop(87, None)       # "function pointers were in use" flag: callbacks are the user's to re-attach
                    d = rb.diff_fields(model[k][1], f, self.names)
                    if d:
                        V.append(("snapshot-differs:after-%s:%s" % (op, ",".join(map(str, d[:4]))),
                                  "snapshot %d (taken after %s) differs from the live state at that time in fields %s once %s had been appended; history %s from %s" % (k, (["<initial>"] + hist)[k], d[:8], op, hist[:i + 1], start)))
                        bad = True
                        break
                del sa
                if bad:
                    break
        finally:
            if os.path.exists(fn):
                os.unlink(fn)
        return ("done", V)


class Long:
    """one long history: the index of the archive grows in chunks of 1024 entries"""
    def __init__(self, rebound):
        self.rebound = rebound

    def __call__(self, task):
        n, = task
        rb.quiet()
        rebound = self.rebound
        V = []
        fn = tmpname()
        try:
            sim = Hist(rebound).start("whfast")
            keep = {}
            probe = set([0, 1, 1022, 1023, 1024, 1025, 1026, 2046, 2047, 2048, 2049, n - 1])
            times = []
            for k in range(n):
                if k:
                    sim.step()
                sim.save_to_file(fn)
                times.append(sim.t)
                if k in probe:
                    f = rb.fields_masked(rb.stream(sim))
                    f.pop(87, None)
                    keep[k] = f
            sa = rebound.Simulationarchive(fn)
            if sa.nblobs != n:
                V.append(("long:nblobs", "%d snapshots appended one by one, archive reports %d" % (n, sa.nblobs)))
            else:
                for k in range(n):
                    if sa.t[k] != times[k]:
                        V.append(("long:t[k]", "sa.t[%d]=%r, snapshot was taken at %r" % (k, sa.t[k], times[k])))
                        break
                names = rb.field_names()
                for k in sorted(keep):
                    f = rb.fields_masked(rb.stream(sa[k]))
                    f.pop(87, None)
                    d = rb.diff_fields(keep[k], f, names)
                    if d:
                        V.append(("long:snapshot-differs", "snapshot %d of %d differs from the live state in %s" % (k, n, d[:5])))
                        break
        finally:
            if os.path.exists(fn):
                os.unlink(fn)
        return V


# --------------------------------------------------------------------------------------------- cadence
class Cadence:
    def __init__(self, rebound):
        self.rebound = rebound
        self.names = None

    def make(self, integ):
        rebound = self.rebound
        sim = rebound.Simulation()
        G, bodies, P = lattice.system("S3")
        for b in bodies:
            sim.add(m=b[0], x=b[1], y=b[2], z=b[3], vx=b[4], vy=b[5], vz=b[6])
        sim.dt = 0.125
        if integ == "whfast_unsafe":
            sim.integrator = "whfast"
            sim.ri_whfast.safe_mode = 0
        elif integ == "ias15_fixed":
            sim.integrator = "ias15"
            sim.ri_ias15.epsilon = 0.
        else:
            sim.integrator = integ
        sim.exact_finish_time = 0
        sim.rand_seed = 4242
        return sim

    def __call__(self, task):
        integ, mode, val, legs, sign, manual = task
        rb.quiet()
        rebound = self.rebound
        if self.names is None:
            self.names = rb.field_names()
        V = []
        fn = tmpname()
        tag = "%s/%s=%s/legs=%s/sign=%d/manual=%s" % (integ, mode, val, legs, sign, manual)
        try:
            sim = self.make(integ)
            ref = self.make(integ)
            dt = 0.125 * sign
            sim.dt = dt
            ref.dt = dt
            if mode == "interval":
                sim.save_to_file(fn, interval=val)
            else:
                sim.save_to_file(fn, step=val)
            expected = []   # (t, fields of the reference run at that boundary)
            nxt_t = 0.0
            nxt_step = 0
            steps = 0
            t_end = 0.0

            def boundary(reft):
                nonlocal nxt_t, nxt_step
                take = False
                if mode == "interval":
                    if sign * nxt_t <= sign * reft:
                        nxt_t += sign * val
                        take = True
                else:
                    if nxt_step <= steps:
                        nxt_step += val
                        take = True
                if take:
                    expected.append((ref.t, rb.fields_masked(rb.stream(ref)), "auto"))

            for li, nsteps in enumerate(legs):
                t_end += nsteps * dt
                # the library looks at the cadence before every step and once more after the last one
                for j in range(nsteps):
                    boundary(ref.t)
                    ref.step()
                    steps += 1
                ref.synchronize()       # integrate() synchronises after its loop, before the final cadence look-up
                boundary(ref.t)
                sim.integrate(t_end, exact_finish_time=0)
                if manual == "again" and li < len(legs) - 1:
                    # the same request once more (what a restarted run does): documented not to disturb the cadence
                    if mode == "interval":
                        sim.save_to_file(fn, interval=val)
                    else:
                        sim.save_to_file(fn, step=val)
                elif manual and li < len(legs) - 1:
                    sim.save_to_file(fn)
                    ref.synchronize()
                    expected.append((ref.t, rb.fields_masked(rb.stream(ref)), "manual"))
            # prescribed cadence, stated independently of the loop above: one automatic snapshot per multiple
            if mode == "interval":
                span = abs(t_end)
                n_auto = int(span // val) + 1
            else:
                n_auto = steps // val + 1
            got_auto = sum(1 for e in expected if e[2] == "auto")
            sa = rebound.Simulationarchive(fn)
            if got_auto != n_auto:
                V.append(("cadence-model-disagrees", "harness: loop model gives %d automatic snapshots, closed form %d [%s]" % (got_auto, n_auto, tag)))
            if sa.nblobs != len(expected):
                V.append(("cadence-count:%s" % mode, "%d snapshots in the archive, the prescribed cadence gives %d (times %s vs %s) [%s]" % (
                    sa.nblobs, len(expected), [sa.t[k] for k in range(sa.nblobs)], [e[0] for e in expected], tag)))
            else:
                for k in range(sa.nblobs):
                    if sa.t[k] != expected[k][0]:
                        V.append(("cadence-time:%s" % mode, "snapshot %d at t=%r, prescribed %r [%s]" % (k, sa.t[k], expected[k][0], tag)))
                        break
                    s = sa[k]
                    f = rb.fields_masked(rb.stream(s))
                    e = dict(expected[k][1])
                    for t in CADENCE_IGNORED:
                        f.pop(t, None)
                        e.pop(t, None)
                    d = rb.diff_fields(e, f, self.names)
                    if d:
                        V.append(("cadence-content:%s:%s" % (mode, ",".join(map(str, d[:3]))), "automatic snapshot %d differs from the lock-step reference run in %s [%s]" % (k, d[:6], tag)))
                        break
        finally:
            if os.path.exists(fn):
                os.unlink(fn)
        return V


def run(ctx):
    rebound = ctx.use("asan")
    depth = 3 if ctx.tier == "quick" else 4
    starts = ["whfast", "ias15", "ias15_var", "whfast_var"] if ctx.tier == "quick" else ["whfast", "ias15", "whfast_unsafe", "mercurius", "ias15_var", "whfast_var"]
    tasks = []
    for start in starts:
        for d in range(1, depth + 1):
            for h in itertools.product(OPS, repeat=d):
                tasks.append((start, list(h)))
                if any(op in ("reset", "remove_all") or op.startswith("to_") for op in h):
                    tasks.append((start, list(h), 2))      # the same history on an archive whose first snapshot already holds integrator arrays
    tasks = ctx.shuffled(tasks)
    H = Hist(rebound)
    res = pool.run_tasks(H, tasks, timeout=60, progress=lambda d, n: ctx.note("histories %d/%d" % (d, n)))
    explored = 0
    refused = 0
    appends = 0
    samples = []
    from .. import common
    for tk, r in zip(tasks, res):
        start, h = tk[0], tk[1]
        if len(tk) > 2:
            start = "%s after %d steps" % (start, tk[2])
        if r[0] != "ok":
            if r[0] == "crash":
                frag, short = common.classify_crash(r[1])
            else:
                frag, short = r[0], str(r[1])[-700:]
            ctx.violation("history-%s:%s:%s" % (r[0], h[-1], frag), "%s during history %s from %s: %s" % (r[0], h, start, short), {"kind": "hist", "start": start, "history": h})
            continue
        v = r[1]
        if v is None:
            continue
        if v[0] == "refused":
            refused += 1
            continue
        explored += 1
        appends += len(h)
        for sig, what in v[1]:
            ctx.violation(sig, what, {"kind": "hist", "start": start, "history": h})
        if len(samples) < 4 and len(h) == depth:
            samples.append({"start": start, "history": h})
    # cadence
    ctasks = []
    integs = ["whfast", "whfast_unsafe", "leapfrog", "saba", "janus", "ias15_fixed", "mercurius", "eos"]
    for integ in integs:
        for mode, vals in (("interval", [0.125, 0.3125, 1.25]), ("step", [1, 3])):
            for val in vals:
                for legs in ([24], [7, 17], [10, 1, 13]):
                    for sign in (1, -1):
                        for manual in (False, True, "again"):
                            if manual and len(legs) == 1:
                                continue
                            ctasks.append((integ, mode, val, legs, sign, manual))
    ctasks = ctx.shuffled(ctasks)
    C = Cadence(rebound)
    cres = pool.run_tasks(C, ctasks, timeout=60)
    for t, r in zip(ctasks, cres):
        if r[0] != "ok":
            ctx.violation("cadence-%s:%s" % (r[0], t[0]), "%s in cadence case %s: %s" % (r[0], t, str(r[1])[-600:]), {"kind": "cadence", "task": t})
            continue
        for sig, what in r[1]:
            ctx.violation(sig, what, {"kind": "cadence", "task": t})
    ln = 1100 if ctx.tier == "quick" else 2100
    lres = pool.run_tasks(Long(rebound), [(ln,)], timeout=600, nproc=1)
    if lres[0][0] != "ok":
        ctx.violation("long-%s" % lres[0][0], "long history of %d snapshots: %s" % (ln, str(lres[0][1])[-500:]), {"kind": "long", "n": ln})
    else:
        for sig, what in lres[0][1]:
            ctx.violation(sig, what, {"kind": "long", "n": ln})
    appends += ln
    cov = {
        "states": appends + len(ctasks), "transitions": appends + len(ctasks), "traces_validated_against_impl": explored + len(ctasks),
        "histories_enumerated": len(tasks), "histories_inside_documented_usage": explored, "histories_refused_by_library": refused,
        "cadence_cases": len(ctasks), "max_depth": depth, "alphabet": OPS, "starts": starts,
        "samples": samples or [{"start": starts[0], "history": []}],
        "exhaustive": True,
        "rule": "every sequence over the 21-operation alphabet up to max_depth from each start integrator, a snapshot appended after every operation and ALL snapshots re-read after every append; "
                "sequences leaving documented usage (editing particles with variational particles present, ...) are filtered by a stated predicate; "
                "cadence: 8 fixed-step integrators x {interval dt,2.5dt,10dt; step 1,3} x 3 leg patterns x 2 directions x manual snapshots between legs",
    }
    return ctx.finish(LEVEL, cov, assumptions=[
        "snapshot equality is judged on the serialised state with pointer members masked and wall-time fields dropped",
        "cadence content is compared with a lock-step reference run, ignoring the archive's own cadence bookkeeping fields, status and dt_last_done",
    ])


def replay(ctx, case):
    rebound = ctx.use("asan")
    if case.get("kind") == "long":
        V = Long(rebound)((case["n"],))
    elif case.get("kind") == "cadence":
        V = Cadence(rebound)(tuple(case["task"]))
    else:
        r = Hist(rebound)((case["start"], case["history"]))
        print(r)
        V = r[1] if r and r[0] == "done" else []
    for v in V:
        print(v)
    return 1 if V else 0
