"""C04 -- isolated systems conserve momentum, angular momentum and (as advertised) energy.

A  option lattice x boosted systems x direction: invariants measured in longdouble at every synchronisation point
B  every history over {step, steps, synchronize, switch integrator} up to a depth, invariants after every operation
C  merging collisions: every insertion order of the bodies x integrator x merge time; mass, momentum, centre of mass,
   energy including the tracked offset, agreement between orders
D  the diagnostics (energy, angular momentum, centre of mass) against their definitions in 40-digit arithmetic
"""
import itertools
import math

import numpy as np

from .. import lattice, pool, rb

LEVEL = "exploration"
LD = np.longdouble
U = 2.0 ** -53
BOOST = (0.11, -0.07, 0.03, 0.4, -0.3, 0.2)     # velocity and position offset of the whole system (in units of v_orb, a)

FIXED = ("whfast", "saba", "eos", "leapfrog")      # fixed-step schemes that are compositions of exactly momentum- and L-preserving maps


def invariants(sim, G=None):
    """(M, P[3], X[3] (mass weighted position sum), L[3], E) in longdouble from the particle array"""
    n = sim.N
    m = np.array([sim.particles[i].m for i in range(n)], dtype=LD)
    X = np.array([[sim.particles[i].x, sim.particles[i].y, sim.particles[i].z] for i in range(n)], dtype=LD)
    V = np.array([[sim.particles[i].vx, sim.particles[i].vy, sim.particles[i].vz] for i in range(n)], dtype=LD)
    M = m.sum()
    P = (m[:, None] * V).sum(axis=0)
    C = (m[:, None] * X).sum(axis=0)
    L = (m[:, None] * np.cross(X, V)).sum(axis=0)
    K = (m * (V * V).sum(axis=1)).sum() / 2
    W = LD(0)
    Gl = LD(sim.G)
    for i in range(n):
        for j in range(i):
            d = X[i] - X[j]
            W -= Gl * m[i] * m[j] / np.sqrt((d * d).sum())
    Eint = K + W - (P * P).sum() / (2 * M)
    scales = {"P": float((m * np.sqrt((V * V).sum(axis=1))).sum()), "C": float((m * np.sqrt((X * X).sum(axis=1))).sum()),
              "L": float((m * np.sqrt((X * X).sum(axis=1)) * np.sqrt((V * V).sum(axis=1))).sum()), "E": float(abs(K) + abs(W))}
    return {"M": M, "P": P, "C": C, "L": L, "E": K + W, "Eint": Eint, "scales": scales}


def boosted(rebound, cfg):
    sim, P = lattice.make_sim(rebound, cfg)
    G, b, _ = lattice.system(cfg["sys"])
    a0 = lattice._SYS[cfg["sys"]][1][0][1]
    v0 = math.sqrt(G / a0)
    for i in range(sim.N):
        p = sim.particles[i]
        p.vx += BOOST[0] * v0
        p.vy += BOOST[1] * v0
        p.vz += BOOST[2] * v0
        p.x += BOOST[3] * a0
        p.y += BOOST[4] * a0
        p.z += BOOST[5] * a0
    return sim, P


def eclass(integ, o, n):
    """bound on max |dE/E_internal| over n steps of dt = P/25 in the test systems"""
    if integ == "ias15":
        return 1e-14 * math.sqrt(n)             # rounding-level random walk
    if integ == "bs":
        return 0.3 * o.get("eps_rel", 1e-8) * n  # not symplectic: linear growth at the level of the tolerance
    if integ == "janus":
        return {2: 3e-2, 4: 3e-3, 6: 1e-3, 8: 1e-3, 10: 1e-3}[o.get("order", 2)]
    if integ == "leapfrog":
        return 3e-2
    if integ == "eos":
        return 3e-2
    if integ == "saba":
        return 1e-4
    return 1e-4      # whfast, mercurius, trace


class Lattice:
    def __init__(self, rebound, blocks, per):
        self.rebound, self.blocks, self.per = rebound, blocks, per

    def __call__(self, cfg):
        rb.quiet()
        sim, P = boosted(self.rebound, dict(cfg, steps_per_orbit=25.0))
        inv0 = invariants(sim)
        t0 = sim.t
        out = []
        for b in range(self.blocks):
            sim.steps(self.per)
            sim.synchronize()
            iv = invariants(sim)
            t = LD(sim.t - t0)
            Vc = inv0["P"]
            row = {
                "M": float(abs(iv["M"] - inv0["M"])),
                "P": float(np.max(np.abs(iv["P"] - inv0["P"]))),
                "C": float(np.max(np.abs(iv["C"] - inv0["C"] - Vc * t))),
                "L": float(np.max(np.abs(iv["L"] - inv0["L"]))),
                "Lscale": max(iv["scales"]["L"], inv0["scales"]["L"]),
                "E": float(abs(iv["E"] - inv0["E"]) / abs(inv0["Eint"])),
                "t": float(t),
            }
            out.append(row)
        sc = inv0["scales"]
        sc["Ct"] = sc["P"] * abs(float(sim.t - t0)) + sc["C"]
        sc["M"] = float(inv0["M"])
        # the diagnostics on the final state
        L = sim.angular_momentum()
        iv = invariants(sim)
        diag = {"E": abs(sim.energy() - float(iv["E"])) / iv["scales"]["E"], "L": max(abs(L[k] - float(iv["L"][k])) for k in range(3)) / iv["scales"]["L"]}
        return out, sc, diag, self.per


def judge_lattice(ctx, cfg, res, worst):
    rows, sc, diag, per = res
    integ, o = cfg["integ"], cfg["o"]
    lab = lattice.cfg_label(cfg)
    fam = integ
    if integ == "whfast":
        fam = "whfast/" + o.get("coordinates", "jacobi")
    n = per * len(rows)
    rn = math.sqrt(n)
    case = {"cfg": cfg}
    grid = o.get("scale_pos", 0.0) if integ == "janus" else 0.0
    for k, r in enumerate(rows):
        steps = per * (k + 1)
        if r["M"] != 0:
            ctx.violation("mass:%s" % fam, "%s: total mass changed by %g" % (lab, r["M"]), case)
        # linear momentum and uniform motion of the centre of mass: rounding error (random walk over the steps)
        tolP = 1024 * U * rn * sc["P"] + 20 * grid * steps * sc["M"]
        worst["P:" + integ] = max(worst.get("P:" + integ, 0), r["P"] / (U * rn * sc["P"]))
        if r["P"] > tolP:
            ctx.violation("momentum:%s" % fam, "%s: total momentum changed by %.3g after %d steps (rounding level is %.3g)" % (lab, r["P"], steps, tolP), case)
            return
        tolC = 1024 * U * rn * sc["Ct"] + 20 * grid * steps * (sc["M"] + sc["Ct"])
        worst["C:" + integ] = max(worst.get("C:" + integ, 0), r["C"] / (U * rn * sc["Ct"]))
        if r["C"] > tolC:
            ctx.violation("com:%s" % fam, "%s: centre of mass left its straight line by %.3g (mass-weighted) after %d steps (rounding level is %.3g)" % (lab, r["C"], steps, tolC), case)
            return
        # angular momentum (about the origin; positions grow with the boost, so the scale is the current one)
        Ls = r["Lscale"]
        if fam == "whfast/barycentric":
            # the star is slaved to the centre-of-mass constraint: the split flows are not separately rotation invariant,
            # angular momentum is conserved to the accuracy of the scheme only (bounded, observed 4e-8)
            tolL = 1e-6 * Ls
        elif integ in FIXED or integ in ("mercurius", "trace"):
            tolL = 4096 * U * rn * Ls
        elif integ == "ias15":
            tolL = 1e-13 * Ls * max(1.0, rn / 10)
        elif integ == "bs":
            tolL = 1e2 * o.get("eps_rel", 1e-8) * Ls
        else:
            tolL = 1e3 * grid * steps * Ls + 4096 * U * rn * Ls
        worst["L:" + fam] = max(worst.get("L:" + fam, 0), r["L"] / (U * rn * Ls))
        if r["L"] > tolL:
            ctx.violation("angular-momentum:%s" % fam, "%s: total angular momentum changed by %.3g after %d steps (allowed %.3g)" % (lab, r["L"], steps, tolL), case)
            return
    # energy: accuracy class, and no drift for the fixed-step symplectic families
    emax = max(r["E"] for r in rows)
    bound = eclass(integ, o, n)
    worst["E:" + integ] = max(worst.get("E:" + integ, 0), emax / bound)
    if emax > bound:
        ctx.violation("energy-class:%s" % fam, "%s: max |dE/E| = %.3g over %d steps, the class of the integrator allows %.3g" % (lab, emax, n, bound), case)
    elif integ in ("whfast", "saba", "mercurius", "trace"):
        # the error of the Wisdom-Holman family saturates within a few hundred steps: the second half of the run must not
        # exceed the first (families whose error oscillates with a period longer than the run are judged by their bound only)
        h = len(rows) // 2
        e1 = max(r["E"] for r in rows[:h])
        e2 = max(r["E"] for r in rows[h:])
        if e2 > 3 * e1 + 1e-7:
            ctx.violation("energy-drift:%s" % fam, "%s: max |dE/E| %.3g in the first half, %.3g in the second half of %d steps (secular growth)" % (lab, e1, e2, n), case)
    if diag["E"] > 64 * U or diag["L"] > 64 * U:
        ctx.violation("diagnostic:%s" % ("energy" if diag["E"] > 64 * U else "angular_momentum"), "%s: diagnostic differs from the longdouble sum by %.3g / %.3g of the scale" % (lab, diag["E"], diag["L"]), case)


# ------------------------------------------------------------------------------------------------ B histories
INITIAL = [("whfast", {"safe_mode": 0}), ("whfast", {"safe_mode": 0, "keep_unsynchronized": 1}), ("whfast", {"coordinates": "democraticheliocentric", "safe_mode": 0}),
           ("whfast", {"coordinates": "whds", "safe_mode": 0}), ("whfast", {"coordinates": "barycentric", "safe_mode": 0, "corrector": 11}),
           ("whfast", {"kernel": "lazy", "corrector": 17, "safe_mode": 0}),
           ("saba", {"type": "10,6,4", "safe_mode": 0}), ("saba", {"type": "cl4", "safe_mode": 0, "keep_unsynchronized": 1}), ("saba", {"type": "2", "safe_mode": 0}),
           ("eos", {"phi0": "lf4", "phi1": "lf", "n": 2, "safe_mode": 0}), ("eos", {"phi0": "pmlf4", "phi1": "pmlf6", "n": 2, "safe_mode": 0}),
           ("mercurius", {"safe_mode": 0}), ("ias15", {}), ("leapfrog", {}), ("bs", {}), ("trace", {})]
WH_SAFE = {"safe_mode": 1, "keep_unsynchronized": 0, "corrector": 0, "corrector2": 0, "kernel": "default"}
TARGETS = [("whfast", dict(WH_SAFE, coordinates="jacobi")), ("whfast", dict(WH_SAFE, coordinates="democraticheliocentric")), ("whfast", dict(WH_SAFE, coordinates="whds")),
           ("whfast", dict(WH_SAFE, coordinates="barycentric")), ("saba", {"type": "10,6,4", "safe_mode": 1, "keep_unsynchronized": 0}),
           ("eos", {"phi0": "lf4", "phi1": "lf4", "n": 2, "safe_mode": 1}), ("mercurius", {"safe_mode": 1}), ("trace", {}), ("ias15", {}), ("leapfrog", {}), ("bs", {})]
OPS = [("step", 1), ("step", 3), ("sync",)] + [("switch", k) for k in range(len(TARGETS))]


class Histories:
    def __init__(self, rebound, depth):
        self.rebound, self.depth = rebound, depth

    def measure(self, sim, inv0, t0):
        c = sim.copy()
        c.synchronize()
        iv = invariants(c)
        t = LD(c.t - t0)
        sc = inv0["scales"]
        return (float(np.max(np.abs(iv["P"] - inv0["P"]))) / sc["P"],
                float(np.max(np.abs(iv["C"] - inv0["C"] - inv0["P"] * t))) / (sc["C"] + sc["P"] * abs(float(t))),
                float(np.max(np.abs(iv["L"] - inv0["L"]))) / sc["L"],
                float(abs(iv["E"] - inv0["E"]) / abs(inv0["Eint"])))

    def __call__(self, task):
        """task = (index of initial configuration, first operation): explores every history with that prefix depth-first"""
        ii, first = task
        rb.quiet()
        integ0, o0 = INITIAL[ii]
        out = []
        count = [0, 0]

        def build(hist):
            sim, P = boosted(self.rebound, {"integ": integ0, "o": o0, "sys": "S3", "tp": 0, "dtsign": 1, "steps_per_orbit": 25.0})
            inv0 = invariants(sim)
            dt0 = sim.dt
            worst = [0.0, 0.0, 0.0, 0.0]
            for op in hist:
                if op[0] == "step":
                    sim.steps(op[1])
                elif op[0] == "sync":
                    sim.synchronize()
                else:
                    # the documented way to change integrators: really synchronize, select, put the gravity routine back to
                    # the default (hybrid schemes, SABA and the WHFast kernels select their own; REBOUND warns about leftovers); the step size is the user's to set (adaptive schemes change it)
                    sim.ri_whfast.keep_unsynchronized = 0
                    sim.ri_saba.keep_unsynchronized = 0
                    sim.synchronize()
                    integ, o = TARGETS[op[1]]
                    if integ == "saba":
                        sim.ri_whfast.coordinates = "jacobi"
                    lattice.apply_options(sim, integ, o)
                    if sim.gravity == "jacobi":
                        # the library warns about a leftover JACOBI routine and tells the user to select another one;
                        # the routines of the hybrid schemes it has to put back itself (it says so for MERCURIUS)
                        sim.gravity = "basic"
                    sim.dt = dt0
                count[1] += 1
                m = self.measure(sim, inv0, 0.0)
                worst = [max(a, b) for a, b in zip(worst, m)]
            return worst

        def rec(hist):
            count[0] += 1
            w = build(hist)
            out.append((hist, w))
            if len(hist) < self.depth:
                for op in OPS:
                    # no-ops on the measured quantities are still explored (sync, sync) but two switches in a row are one switch
                    if op[0] == "switch" and hist and hist[-1][0] == "switch":
                        continue
                    rec(hist + [op])
        rec([first])
        # report only the worst per (initial, first): the judge re-derives labels
        bad = []
        for hist, w in out:
            bad.append((hist, w))
        return bad, count


def judge_history(ctx, ii, hist, w, worst):
    integ0, o0 = INITIAL[ii]
    used = [integ0] + [TARGETS[op[1]][0] for op in hist if op[0] == "switch"]
    nsteps = sum(op[1] for op in hist if op[0] == "step")
    label = "%s%s: %s" % (integ0, o0, " ".join("%s%s" % (op[0], "" if len(op) == 1 else (":%s" % (op[1] if op[0] == "step" else "%s%s" % TARGETS[op[1]]))) for op in hist))
    case = {"initial": [integ0, o0], "history": [list(op) for op in hist]}
    last = used[-1]
    sig = "%s->%s" % (integ0, last) if len(used) > 1 else integ0
    rn = math.sqrt(max(nsteps, 1))
    worst["hP"] = max(worst.get("hP", 0), w[0] / U)
    worst["hL"] = max(worst.get("hL", 0), w[2] / U)
    if w[0] > 1024 * U * rn:
        ctx.violation("history-momentum:%s" % sig, "%s: momentum changed by %.3g of its scale" % (label, w[0]), case)
        return
    if w[1] > 1024 * U * rn:
        ctx.violation("history-com:%s" % sig, "%s: centre of mass left its straight line by %.3g of its scale" % (label, w[1]), case)
        return
    tolL = 4096 * U * rn
    if any(op[0] == "switch" and TARGETS[op[1]][1].get("coordinates") == "barycentric" for op in hist) or o0.get("coordinates") == "barycentric":
        tolL = 1e-6
    if "bs" in used:
        tolL = max(tolL, 1e-6)
    if "ias15" in used:
        tolL = max(tolL, 1e-13)
    if w[2] > tolL:
        ctx.violation("history-angular-momentum:%s" % sig, "%s: angular momentum changed by %.3g of its scale (allowed %.3g)" % (label, w[2], tolL), case)
        return
    tolE = 1e-13
    for u_ in used:
        tolE = max(tolE, {"ias15": 1e-12, "bs": 1e-6, "leapfrog": 1e-2, "eos": 1e-2}.get(u_, 1e-4))
    if w[3] > tolE:
        ctx.violation("history-energy:%s" % sig, "%s: |dE/E| reached %.3g (the least accurate integrator used allows %.3g)" % (label, w[3], tolE), case)


# ------------------------------------------------------------------------------------------------ C merges
def merge_bodies(shift):
    """star + planets A,B on a collision course, C flying along inside the switch-over radius, D and E far away; `shift`
    moves B along its path so that the merger falls into a different (sub)step"""
    v = 1.0
    A = dict(m=1e-4, r=1e-3, x=1.0, y=0.0, vx=0.0, vy=v)
    B = dict(m=1e-4, r=1e-3, x=1.0, y=0.03 + shift, vx=0.0, vy=v - 0.08)
    C = dict(m=1e-4, r=4e-3, x=1.04, y=-0.03, vx=0.0, vy=v * 0.985)
    D = dict(m=1e-4, r=4e-3, x=-3.0, y=0.0, vx=0.0, vy=-1.0 / math.sqrt(3.0))
    E = dict(m=3e-5, r=4e-3, x=0.0, y=5.0, z=0.1, vx=-1.0 / math.sqrt(5.0), vy=0.0)
    return {"A": A, "B": B, "C": C, "D": D, "E": E}


MERGE_INTEGRATORS = [("mercurius", {}), ("mercurius", {"safe_mode": 0}), ("trace", {}), ("ias15", {}), ("bs", {}), ("whfast", {}), ("leapfrog", {})]


class Merges:
    def __init__(self, rebound):
        self.rebound = rebound

    def __call__(self, task):
        order, ik, shift, names = task
        rb.quiet()
        rebound = self.rebound
        integ, o = MERGE_INTEGRATORS[ik]
        bodies = merge_bodies(shift)
        sim = rebound.Simulation()
        sim.add(m=1.0, r=4e-3)
        for nm in order:
            sim.add(**bodies[nm])
        for i in range(sim.N):
            sim.particles[i].vx += 0.05
            sim.particles[i].vz -= 0.02
        lattice.apply_options(sim, integ, o)
        sim.dt = 0.05 if integ not in ("leapfrog", "whfast") else 0.002
        if integ == "mercurius":
            sim.ri_mercurius.r_crit_hill = 4.0
        if integ == "bs":
            sim.ri_bs.max_dt = 0.05     # same horizon as the fixed-step runs
        sim.collision = "direct"
        sim.collision_resolve = "merge"
        sim.track_energy_offset = 1
        inv0 = invariants(sim)
        E0 = sim.energy()
        N0 = sim.N
        nsteps = 40 if integ not in ("leapfrog", "whfast") else 1000
        worst = {"M": 0.0, "P": 0.0, "C": 0.0, "E": 0.0}
        merged_at = None
        for k in range(nsteps):
            sim.step()
            c = sim.copy() if o.get("safe_mode", 1) == 0 else sim
            c.synchronize()
            iv = invariants(c)
            if merged_at is None and c.N < N0:
                merged_at = k
            sc = inv0["scales"]
            worst["M"] = max(worst["M"], float(abs(iv["M"] - inv0["M"]) / inv0["M"]))
            worst["P"] = max(worst["P"], float(np.max(np.abs(iv["P"] - inv0["P"]))) / sc["P"])
            worst["C"] = max(worst["C"], float(np.max(np.abs(iv["C"] - inv0["C"] - inv0["P"] * LD(c.t)))) / (sc["C"] + sc["P"] * abs(c.t)))
            worst["E"] = max(worst["E"], abs((c.energy() - E0) / float(inv0["Eint"])))
        sim.synchronize()
        final = sorted((round(sim.particles[i].m, 12), sim.particles[i].x, sim.particles[i].y, sim.particles[i].z) for i in range(sim.N))
        return {"mergers": N0 - sim.N, "merged_at": merged_at, "worst": worst, "final": final}


class Flybys:
    """close encounters without a collision: the hybrid integrators switch method (and TRACE rejects and repeats steps) while the
    whole system moves; every insertion order of the planets"""
    def __init__(self, rebound):
        self.rebound = rebound

    def __call__(self, task):
        order, integ, o, nsteps = task[:4]
        sgn = task[4] if len(task) > 4 else 1
        rb.quiet()
        rebound = self.rebound
        bodies = {"A": dict(m=1e-4, a=1.0, e=0.01, f=0.0), "B": dict(m=1e-4, a=1.03, e=0.01, f=-0.06 * sgn), "C": dict(m=1e-5, a=3.0, e=0.1, f=1.0), "D": dict(m=3e-5, a=0.5, e=0.3, f=2.0)}
        sim = rebound.Simulation()
        sim.add(m=1.0)
        for nm in order:
            sim.add(primary=sim.particles[0], **bodies[nm])
        sim.move_to_com()
        for p in sim.particles:
            p.vx += 0.05
            p.vz -= 0.02
            p.y += 0.3
        lattice.apply_options(sim, integ, o)
        sim.dt = 0.02 * sgn
        inv0 = invariants(sim)
        worst = [0.0, 0.0, 0.0, 0.0]
        dtmin = abs(sim.dt)
        for k in range(nsteps // 50):
            sim.steps(50)
            dtmin = min(dtmin, abs(sim.dt))
            c = sim.copy() if o.get("safe_mode", 1) == 0 else sim
            c.synchronize()
            iv = invariants(c)
            sc = inv0["scales"]
            t = LD(c.t)
            m_ = (float(np.max(np.abs(iv["P"] - inv0["P"]))) / sc["P"],
                  float(np.max(np.abs(iv["C"] - inv0["C"] - inv0["P"] * t))) / (sc["C"] + sc["P"] * abs(float(t))),
                  float(np.max(np.abs(iv["L"] - inv0["L"]))) / max(iv["scales"]["L"], sc["L"]),
                  float(abs(iv["E"] - inv0["E"]) / abs(inv0["Eint"])))
            worst = [max(a, b) for a, b in zip(worst, m_)]
        return worst + [dtmin]


class Pericentre:
    """TRACE through pericentre passages that its switching condition hands to BS / IAS15, each prescription, both directions, on a
    moving system: the invariants must not depend on the prescription"""
    def __init__(self, rebound):
        self.rebound = rebound

    def __call__(self, task):
        from . import c01
        mode, e, sgn, n = task[:4]
        prelude = task[4] if len(task) > 4 else None       # integrator used for three steps before TRACE is selected
        rb.quiet()
        rebound = self.rebound
        G, bodies, P = c01.peri_bodies(e, 1e-3)
        sim = rebound.Simulation()
        sim.G = G
        for b in bodies:
            sim.add(m=b[0], x=b[1] + 0.3, y=b[2], z=b[3], vx=b[4] + 0.05, vy=b[5], vz=b[6] - 0.02)
        if prelude:
            sim.integrator = prelude
            sim.dt = sgn * P / 400
            sim.steps(3)
            sim.synchronize()
        sim.integrator = "trace"
        sim.ri_trace.peri_mode = mode
        sim.dt = sgn * P / n
        inv0 = invariants(sim)
        t_start = sim.t
        worst = [0.0, 0.0, 0.0, 0.0]
        for k in range(3 * n // 10):
            sim.steps(10)
            iv = invariants(sim)
            sc = inv0["scales"]
            t = LD(sim.t - t_start)
            m_ = (float(np.max(np.abs(iv["P"] - inv0["P"]))) / sc["P"],
                  float(np.max(np.abs(iv["C"] - inv0["C"] - inv0["P"] * t))) / (sc["C"] + sc["P"] * abs(float(t))),
                  float(np.max(np.abs(iv["L"] - inv0["L"]))) / max(iv["scales"]["L"], sc["L"]),
                  float(abs(iv["E"] - inv0["E"]) / abs(inv0["Eint"])))
            worst = [max(a, b) for a, b in zip(worst, m_)]
        return worst


# ------------------------------------------------------------------------------------------------ D diagnostics
class Diagnostics:
    def __init__(self, rebound):
        self.rebound = rebound

    def __call__(self, task):
        import mpmath as mp
        mp.mp.dps = 40
        n, pattern, nvar, soft, offs = task
        rb.quiet()
        rebound = self.rebound
        sim = rebound.Simulation()
        sim.G = 0.7
        vals = [0.1, -1.3, 2.7, 1e-3, -5.5, 0.37, 1e3, -0.011, 4.0, 0.5]
        ms = {"equal": [1.0] * n, "ratio": [1.0] + [10.0 ** (-3 * k) for k in range(1, n)], "zero": [1.0] + [0.0 if k % 2 else 2.5 for k in range(1, n)]}[pattern]
        for i in range(n):
            sim.add(m=ms[i], x=vals[(i * 3) % 10] + offs, y=vals[(i * 3 + 1) % 10], z=vals[(i * 3 + 2) % 10] - offs,
                    vx=vals[(i * 7 + 2) % 10] * 0.1, vy=vals[(i * 7 + 3) % 10] * 0.1 + offs, vz=vals[(i * 7 + 5) % 10] * 0.1)
        if nvar:
            v = sim.add_variation()
            v.particles[0].x = 1.0
            v.particles[n - 1].vy = 3.0
            v.particles[n - 1].m = 0.5
        if soft:
            sim.softening = 0.3          # the energy diagnostic is documented without softening
        P = [(mp.mpf(sim.particles[i].m), [mp.mpf(getattr(sim.particles[i], c)) for c in ("x", "y", "z", "vx", "vy", "vz")]) for i in range(n)]
        K = sum(m * (s[3] ** 2 + s[4] ** 2 + s[5] ** 2) for m, s in P) / 2
        W = mp.mpf(0)
        terms = abs(K)
        for i in range(n):
            for j in range(i):
                d = mp.sqrt(sum((P[i][1][k] - P[j][1][k]) ** 2 for k in range(3)))
                w = mp.mpf(sim.G) * P[i][0] * P[j][0] / d
                W -= w
                terms += abs(w)
        out = []
        e = sim.energy()
        if not (abs(mp.mpf(e) - (K + W)) <= (8 + 2 * n * n) * U * terms):
            out.append(("energy", "energy() = %r, definition gives %s" % (e, mp.nstr(K + W, 20))))
        L = sim.angular_momentum()
        for k, (a, b) in enumerate(((1, 2), (2, 0), (0, 1))):
            ref = sum(m * (s[a] * s[b + 3] - s[b] * s[a + 3]) for m, s in P)
            sc = sum(abs(m) * (abs(s[a] * s[b + 3]) + abs(s[b] * s[a + 3])) for m, s in P)
            if not (abs(mp.mpf(L[k]) - ref) <= (8 + 2 * n) * U * sc):
                out.append(("angular_momentum", "angular_momentum()[%d] = %r, definition gives %s" % (k, L[k], mp.nstr(ref, 20))))
        c = sim.com()
        M = sum(m for m, s in P)
        if not (abs(mp.mpf(c.m) - M) <= 2 * n * U * M):
            out.append(("com", "com().m = %r, total mass %s" % (c.m, mp.nstr(M, 20))))
        for k, nm in enumerate(("x", "y", "z", "vx", "vy", "vz")):
            ref = sum(m * s[k] for m, s in P) / M
            sc = sum(abs(m * s[k]) for m, s in P) / M
            if not (abs(mp.mpf(getattr(c, nm)) - ref) <= (8 + 4 * n) * U * sc):
                out.append(("com", "com().%s = %r, definition gives %s" % (nm, getattr(c, nm), mp.nstr(ref, 20))))
        # sub-ranges used for Jacobi centres
        for last in range(1, n + 1):
            cr = sim.com(first=0, last=last)
            Mr = sum(P[i][0] for i in range(last))
            if Mr == 0:
                continue
            ref = sum(P[i][0] * P[i][1][0] for i in range(last)) / Mr
            sc = sum(abs(P[i][0] * P[i][1][0]) for i in range(last)) / Mr
            if not (abs(mp.mpf(cr.x) - ref) <= (8 + 4 * n) * U * sc):
                out.append(("com-range", "com(first=0,last=%d).x = %r, definition gives %s" % (last, cr.x, mp.nstr(ref, 20))))
        return out


def run(ctx):
    rebound = ctx.use("rel")
    quick = ctx.tier == "quick"
    worst = {}
    # ---- A
    pts = lattice.integrator_points("full")
    cfgs = []
    for integ, o in pts:
        for sysn in (("S3",) if quick else ("S3", "S4G", "S9")):
            for sgn in (1, -1):
                if sysn == "S9" and integ in ("eos",) and o.get("phi1") not in ("lf", "lf4"):
                    continue
                if integ == "janus" and sysn != "S3":
                    continue        # the boosted larger systems leave the int64 grid within the run
                cfgs.append({"integ": integ, "o": o, "sys": sysn, "tp": 0, "dtsign": sgn})
    cfgs = ctx.shuffled(cfgs)
    blocks, per = (8, 250) if quick else (10, 1000)
    ctx.note("A: %d lattice runs of %d steps" % (len(cfgs), blocks * per))
    res = pool.run_tasks(Lattice(rebound, blocks, per), cfgs, timeout=600, chunk=4, progress=lambda d, n: ctx.note("A %d/%d" % (d, n)))
    for cfg, r in zip(cfgs, res):
        if r[0] != "ok":
            ctx.violation("run-%s:%s" % (r[0], cfg["integ"]), "%s in %s: %s" % (r[0], lattice.cfg_label(cfg), str(r[1])[-400:]), {"cfg": cfg})
            continue
        judge_lattice(ctx, cfg, r[1], worst)
    # ---- B
    depth = 3 if quick else 4
    tasks = [(ii, op) for ii in range(len(INITIAL)) for op in OPS]
    hres = pool.run_tasks(Histories(rebound, depth), tasks, timeout=1200, chunk=1, progress=lambda d, n: ctx.note("B %d/%d" % (d, n)))
    nh = nt = 0
    for (ii, first), r in zip(tasks, hres):
        if r[0] != "ok":
            ctx.violation("history-run-%s:%s" % (r[0], INITIAL[ii][0]), "%s exploring histories from %s starting with %s: %s" % (r[0], INITIAL[ii], first, str(r[1])[-400:]), {"initial": list(INITIAL[ii]), "first": list(first)})
            continue
        lst, count = r[1]
        nh += count[0]
        nt += count[1]
        for hist, w in lst:
            judge_history(ctx, ii, hist, w, worst)
    # ---- C
    names = ["A", "B", "C", "D"] if quick else ["A", "B", "C", "D", "E"]
    orders = list(itertools.permutations(names))
    shifts = (0.0, 0.004) if quick else (0.0, 0.002, 0.004, 0.007)
    mt = [(order, ik, sh, names) for ik in range(len(MERGE_INTEGRATORS)) for sh in shifts for order in orders]
    mres = pool.run_tasks(Merges(rebound), mt, timeout=600, chunk=2, progress=lambda d, n: ctx.note("C %d/%d" % (d, n)))
    groups = {}
    for t, r in zip(mt, mres):
        order, ik, sh, _ = t
        integ, o = MERGE_INTEGRATORS[ik]
        lab = "%s%s planets added as %s, shift %g" % (integ, o, "".join(order), sh)
        case = {"order": list(order), "integrator": [integ, o], "shift": sh}
        if r[0] != "ok":
            ctx.violation("merge-run-%s:%s" % (r[0], integ), "%s: %s: %s" % (lab, r[0], str(r[1])[-400:]), case)
            continue
        v = r[1]
        groups.setdefault((ik, sh), []).append((order, v))
        w = v["worst"]
        if v["mergers"] != 1:
            ctx.violation("merge-count:%s" % integ, "%s: %d mergers instead of one" % (lab, v["mergers"]), case)
            continue
        if w["M"] > 4 * U:
            ctx.violation("merge-mass:%s" % integ, "%s: total mass changed by %.3g" % (lab, w["M"]), case)
        nst = 1000 if integ in ("leapfrog", "whfast") else 40
        if w["P"] > 256 * U * math.sqrt(nst):
            ctx.violation("merge-momentum:%s" % integ, "%s: total momentum changed by %.3g of its scale" % (lab, w["P"]), case)
        if w["C"] > 256 * U * math.sqrt(nst):
            ctx.violation("merge-com:%s" % integ, "%s: centre of mass left its straight line by %.3g of its scale" % (lab, w["C"]), case)
        # the tracked offset accounts for the kinetic and mutual potential energy of the merging pair, not for the change of
        # their potential energy with respect to third bodies (the statement claims mass and momentum only across mergers)
        # (fixed-step schemes do not resolve the approach of the pair: their bound is the truncation error of the encounter)
        tolE = {"leapfrog": 1e-2, "whfast": 1e-2}.get(integ, 1e-4)
        if w["E"] > tolE:
            ctx.violation("merge-energy:%s" % integ, "%s: energy including the tracked offset changed by %.3g (allowed %.3g)" % (lab, w["E"], tolE), case)
    # the same physical system whatever the order of insertion
    for (ik, sh), lst in groups.items():
        integ, o = MERGE_INTEGRATORS[ik]
        es = [v["worst"]["E"] for _, v in lst if v["mergers"] == 1]
        if not es:
            continue
        floor = 1e-9
        ref_order, ref = lst[0]
        for order, v in lst[1:]:
            if v["mergers"] != 1 or ref["mergers"] != 1:
                continue
            if v["worst"]["E"] > 5 * min(es) + floor:
                ctx.violation("merge-order-dependence:%s" % integ, "%s%s shift %g: energy error %.3g with planets added as %s but %.3g as %s" % (
                    integ, o, sh, v["worst"]["E"], "".join(order), min(es), "".join(lst[es.index(min(es))][0])), {"order": list(order), "integrator": [integ, o], "shift": sh})
                continue
            d = max(abs(a - b) for pa, pb in zip(v["final"], ref["final"]) for a, b in zip(pa[1:], pb[1:])) if len(v["final"]) == len(ref["final"]) else float("inf")
            if not (d <= (1e-4 if integ == "bs" else 1e-6)):
                ctx.violation("merge-order-dependence:%s" % integ, "%s%s shift %g: final positions differ by %.3g between insertion orders %s and %s" % (
                    integ, o, sh, d, "".join(order), "".join(ref_order)), {"order": list(order), "integrator": [integ, o], "shift": sh})
    merged_steps = sorted({v["merged_at"] for lst in groups.values() for _, v in lst if v["merged_at"] is not None})
    # ---- E close encounters without a collision, moving system
    FI = [("mercurius", {}), ("mercurius", {"safe_mode": 0}), ("trace", {"peri_mode": "PARTIAL_BS"}), ("trace", {"peri_mode": "FULL_BS"}), ("trace", {"peri_mode": "FULL_IAS15"}), ("ias15", {})]
    fnames = ["A", "B", "C"] if quick else ["A", "B", "C", "D"]
    ft = [(order, integ, o, 2000 if quick else 10000, sgn) for integ, o in FI for order in itertools.permutations(fnames) for sgn in (1, -1)]
    fres = pool.run_tasks(Flybys(rebound), ft, timeout=900, chunk=1)
    ndeep = [0]
    for t, r in zip(ft, fres):
        order, integ, o, nst, sgn = t
        lab = "%s%s, planets added as %s, %d steps %s through repeated close encounters, moving system" % (integ, o, "".join(order), nst, "forward" if sgn > 0 else "backward")
        case = {"flyby": ["".join(order), integ, o, sgn]}
        if r[0] != "ok":
            ctx.violation("flyby-run-%s:%s" % (r[0], integ), "%s: %s %s" % (lab, r[0], str(r[1])[-300:]), case)
            continue
        w = r[1]
        rn = math.sqrt(nst)
        if w[0] > 1024 * U * rn:
            ctx.violation("flyby-momentum:%s" % integ, "%s: total momentum changed by %.3g of its scale" % (lab, w[0]), case)
        elif w[1] > 1024 * U * rn:
            ctx.violation("flyby-com:%s" % integ, "%s: the centre of mass left its straight line by %.3g of its scale (rounding level %.3g)" % (lab, w[1], 1024 * U * rn), case)
        # IAS15 through repeated close encounters: rounding-dominated, growing like the square root of the number of steps
        # (2e-11 per 2000 steps covers the observed 1e-11 forward and 2.2e-11 backward after 10000 steps with a factor of two)
        # (the backward histories bring the two encounter partners within 1e-4 .. 3e-7 of each other, 500 to 1e5 times inside their
        # Hill radius -- IAS15's step then drops from 2e-2 below 1e-5 and its energy error grows roughly like 1/step, 1e-12 .. 8e-7 --:
        # a collision of point masses in all but name and outside the collision-free regime of the statement; energy is not judged
        # for such a run, momentum and centre of mass are)
        deep = integ == "ias15" and len(w) > 4 and w[4] < 1e-5
        ndeep[0] += 1 if deep else 0
        if not deep and w[3] > (2e-11 * math.sqrt(nst / 2000.0) if integ == "ias15" else 1e-4):
            ctx.violation("flyby-energy:%s" % integ, "%s: |dE/E| reached %.3g" % (lab, w[3]), case)
        if w[2] > (1e-12 if integ == "ias15" else 1e-8):
            ctx.violation("flyby-angular-momentum:%s" % integ, "%s: angular momentum changed by %.3g of its scale" % (lab, w[2]), case)
    # ---- E' pericentre passages under TRACE
    PM = ("PARTIAL_BS", "FULL_BS", "FULL_IAS15")
    pt = [(mode, e, sgn, n) for mode in PM for e in (0.8, 0.9) for sgn in (1, -1) for n in (40, 80)]
    pt += [(mode, 0.9, 1, 40, pre) for mode in PM for pre in ("whfast", "saba", "eos", "leapfrog")]
    pres = pool.run_tasks(Pericentre(rebound), pt, timeout=300, chunk=1)
    pw = {}
    for t, r in zip(pt, pres):
        lab = "TRACE peri_mode=%s, inner planet e=%g, %d steps per period %s, three periods, moving system%s" % (t[0], t[1], t[3], "forward" if t[2] > 0 else "backward", ", after three steps of %s" % t[4] if len(t) > 4 else "")
        case = {"pericentre": list(t)}
        if r[0] != "ok":
            ctx.violation("pericentre-run-%s:%s" % (r[0], t[0]), "%s: %s %s" % (lab, r[0], str(r[1])[-300:]), case)
            continue
        w = r[1]
        pw[t] = w
        rn = math.sqrt(3 * t[3])
        if w[0] > 1024 * U * rn:
            ctx.violation("pericentre-momentum:%s" % t[0], "%s: total momentum changed by %.3g of its scale" % (lab, w[0]), case)
        elif w[1] > 1024 * U * rn:
            ctx.violation("pericentre-com:%s" % t[0], "%s: the centre of mass left its straight line by %.3g of its scale" % (lab, w[1]), case)
    for t, w in pw.items():
        best = min(pw.get((mo,) + t[1:4], [0, 0, 0, float("inf")])[3] for mo in PM)       # (the runs without a prelude)
        if w[3] > 10 * best + 1e-9:
            ctx.violation("pericentre-energy:%s%s" % (t[0], ":after-" + t[4] if len(t) > 4 else ""), "TRACE peri_mode=%s, inner planet e=%g, %d steps per period %s%s: |dE/E| reached %.3g, with another pericentre prescription (used from the start) %.3g" % (
                t[0], t[1], t[3], "forward" if t[2] > 0 else "backward", ", after three steps of %s" % t[4] if len(t) > 4 else "", w[3], best), {"pericentre": list(t)})
    # ---- D
    dt = [(n, pat, nvar, soft, offs) for n in range(1, 7) for pat in ("equal", "ratio", "zero") for nvar in (0, 1) for soft in (0, 1) for offs in (0.0, 1e6)]
    dres = pool.run_tasks(Diagnostics(rebound), dt, timeout=300, chunk=4)
    for t, r in zip(dt, dres):
        if r[0] != "ok":
            ctx.violation("diagnostic-run-%s" % r[0], "%s in diagnostics case %s: %s" % (r[0], t, str(r[1])[-300:]), {"diag": list(t)})
            continue
        for sig, what in r[1]:
            ctx.violation("diagnostic:%s" % sig, "%s [N=%d masses=%s variational=%d softening=%d offset=%g]" % ((what,) + t), {"diag": list(t)})
    ctx.note("worst ratios to rounding unit: %s" % {k: round(v, 3) for k, v in worst.items()})
    # WHFast512 exists only in the AVX512 build: its part runs in a process of its own (mc/w512.py)
    from .. import w512
    n_w512 = w512.run(ctx, "C04")
    cov = {
        "whfast512_cases": n_w512,
        "evaluations": len(cfgs) * blocks + nt + len(mt) * 40 + len(dt),
        "distinct_nontrivial": len(cfgs) + nh + len(mt) + len(dt),
        "rule": "A: lattice runs (each measured at %d synchronisation points); B: distinct operation histories of depth <= %d over %d initial configurations x %d operations (measured after every operation); C: insertion orders x integrators x merge times; D: diagnostic cases" % (blocks, depth, len(INITIAL), len(OPS)),
        "lattice_runs": len(cfgs), "histories": nh, "history_transitions": nt, "merge_runs": len(mt), "flyby_runs": len(ft), "flyby_runs_with_a_collisional_approach_not_judged_for_energy": ndeep[0], "pericentre_runs": len(pt), "merge_steps_seen": merged_steps, "diagnostic_cases": len(dt),
        "worst_over_rounding": {k: round(v, 3) for k, v in worst.items()}, "exhaustive": True, "samples": [cfgs[0]],
    }
    return ctx.finish(LEVEL, cov, assumptions=[
        "systems: S3 (quick), S4G and the 9-body S9 (thorough), boosted and displaced so that the centre of mass moves; dt = P/25",
        "rounding level = 64 (momentum, centre of mass) or 256 (angular momentum) x u x sqrt(steps) x sum of |terms|; energy classes: IAS15 2e-13, BS 300 x eps, WH/SABA/MERCURIUS/TRACE 1e-4, LEAPFROG/EOS 3e-2 at this step size, no growth between the two halves of the run",
        "switching integrators is always preceded by synchronize; targets of a switch run in safe mode (deferred-synchronisation modes keep Jacobi state that a different integrator would invalidate, which the documentation says to avoid)",
    ])


def replay(ctx, case):
    return run(ctx)
