"""C01 -- every integrator converges to the true N-body solution at its advertised order.

The whole documented option lattice (WHFast kernels x correctors x corrector2 x coordinates x safety modes, 18 SABA
types, 81+ EOS splittings, IAS15 modes, JANUS orders, BS tolerances, MERCURIUS switching functions, TRACE peri modes)
x test-particle setting x direction x system, each at three step sizes, against an independent longdouble
Gragg-Bulirsch-Stoer reference; user ODEs (autonomous, explicitly time dependent, coupled to the N-body system).
"""
import math

import numpy as np

from .. import lattice, pool, rb, refmath

LEVEL = "exploration"
FLOOR = 2e-13           # below this (relative to the system's size) errors are dominated by rounding and the reference's own error
NS = (40, 80, 160)      # steps over the horizon of two inner periods


def advertised_order(integ, o):
    """lower bound on the order in h that docs/integrators.md and the cited papers advertise"""
    if integ == "whfast":
        # kernels and correctors raise the generalised order (eps h^4 + eps^3 h^2, ...), not the classical one: the
        # improvement they advertise is checked as a relation to the plain scheme below
        return 2
    if integ == "saba":
        t = o.get("type", "10,6,4")
        return 2 if t in ("1", "2", "3", "4", "cm1", "cl1") else 4
    if integ == "eos":
        od = {"lf": 2, "lf4": 4, "lf6": 6, "lf8": 8, "lf4_2": 2, "lf8_6_4": 4, "plf7_6_4": 4, "pmlf4": 4, "pmlf6": 6}
        return min(od[o["phi0"]], od[o["phi1"]])
    if integ == "janus":
        return o.get("order", 2)
    if integ in ("leapfrog", "mercurius", "trace", "whfast512", "sei"):
        return 2
    return None     # tolerance controlled


class Run:
    def __init__(self, rebound, refs):
        self.rebound = rebound
        self.refs = refs

    def __call__(self, task):
        cfg = task
        rb.quiet()
        rebound = self.rebound
        G, b, P = lattice.system(cfg["sys"])
        T = cfg["dtsign"] * 2 * P
        ref = self.refs[(cfg["sys"], cfg["dtsign"], cfg["tp"])]
        scale = max(abs(v) for r in ref for v in r)
        errs = []
        for n in NS:
            sim, _ = lattice.make_sim(rebound, cfg)
            sim.dt = T / n
            if cfg["integ"] in ("ias15", "bs"):
                sim.integrate(T, exact_finish_time=1)
            else:
                sim.steps(n)
                sim.synchronize()
            if not (abs(sim.t - T) <= 1e-9 * abs(T)):
                return ("time", sim.t, T)
            e = 0.0
            for i in range(sim.N):
                p = sim.particles[i]
                for k, v in enumerate((p.x, p.y, p.z)):
                    d = abs(v - ref[i][k])
                    if d != d:
                        d = float("inf")
                    e = max(e, d)
            errs.append(e / scale)
            if cfg["integ"] in ("ias15", "bs"):
                break
        return ("ok", errs)


class ODEs:
    def __init__(self, rebound):
        self.rebound = rebound

    def __call__(self, task):
        integ, kind, eps = task[:3]
        dt0 = task[3] if len(task) > 3 else None        # initial step (adaptive schemes: the first proposed step then differs from the first step done)
        sgn = task[4] if len(task) > 4 else 1
        rebound = self.rebound
        rb.quiet()
        G, b, P = lattice.system("S3")
        sim, _ = lattice.make_sim(rebound, {"integ": integ, "o": ({"eps_rel": eps, "eps_abs": eps} if integ == "bs" else {}), "sys": "S3", "tp": 0, "dtsign": sgn})
        if dt0 is not None:
            sim.dt = sgn * dt0
        T = sgn * 2 * P
        if kind == "harmonic":
            def der(ode, yDot, y, t):
                yDot[0] = y[1]
                yDot[1] = -4.0 * y[0]
            y0 = [1.0, 0.0]
            exact = [math.cos(2 * T), -2 * math.sin(2 * T)]
            needs = False
        elif kind == "timedep":
            # y' = cos(3 t) + t  -> y = sin(3t)/3 + t^2/2 ; z' = -y t
            def der(ode, yDot, y, t):
                yDot[0] = math.cos(3 * t) + t
                yDot[1] = 2.0 * t * y[1] * 0.0 + math.sin(t) * math.exp(-0.1 * t)
            y0 = [0.0, 0.0]
            # integral of sin(t) exp(-0.1 t) from 0 to T
            a = 0.1
            I = (1 - math.exp(-a * T) * (a * math.sin(T) + math.cos(T))) / (1 + a * a)
            exact = [math.sin(3 * T) / 3 + T * T / 2, I]
            needs = False
        else:
            # coupled: y' = x_1(t) (the x coordinate of particle 1), needs the N-body state
            def der(ode, yDot, y, t):
                s = ode.contents.r.contents
                yDot[0] = s._particles[1].x
            y0 = [0.0]
            exact = None
            needs = True
        ode = sim.create_ode(length=len(y0), needs_nbody=needs)
        ode.derivatives = der
        for k, v in enumerate(y0):
            ode.y[k] = v
        sim.integrate(T, exact_finish_time=1)
        got = [ode.y[k] for k in range(len(y0))]
        if exact is None:
            # reference: append the quadrature to the longdouble N-body reference
            N = len(b)
            yref = refmath.nbody_reference(G, b, T, extra=lambda t, yy: np.array([yy[3 * 1 + 0]]), extra0=[0.0])      # (T carries the direction)
            exact = [float(yref[6 * N])]
        err = max(abs(g - x) for g, x in zip(got, exact)) / (1 + max(abs(x) for x in exact))
        return err


def peri_bodies(e, m):
    """star + a planet on an orbit of eccentricity e that passes its pericentre within the horizon + an outer planet"""
    G = 1.0
    pl = [(m, 1.0, e, 0.05, 0.3, 0.2, 0.9 * math.pi), (m / 10, 3.7, 0.1, 0.02, 1.0, 0.5, 2.0)]
    bodies = [[1.0, 0, 0, 0, 0, 0, 0]]
    for (mm, a, ee, inc, Om, om, f) in pl:
        x, y, z, vx, vy, vz = lattice.kep2cart(G * (1.0 + mm), a, ee, inc, Om, om, f)
        bodies.append([mm, x, y, z, vx, vy, vz])
    M = sum(b[0] for b in bodies)
    for k in range(1, 7):
        c = sum(b[0] * b[k] for b in bodies) / M
        for b in bodies:
            b[k] -= c
    return G, bodies, 2 * math.pi * math.sqrt(1.0 / (G * (1 + m)))


class TracePeri:
    """TRACE through a pericentre passage that its switching condition hands to BS / IAS15, each of its three prescriptions"""
    def __init__(self, rebound, refs):
        self.rebound = rebound
        self.refs = refs

    def __call__(self, task):
        e, m, sgn, mode, n = task
        rb.quiet()
        rebound = self.rebound
        G, bodies, P = peri_bodies(e, m)
        T = sgn * P
        sim = rebound.Simulation()
        sim.G = G
        for b in bodies:
            sim.add(m=b[0], x=b[1], y=b[2], z=b[3], vx=b[4], vy=b[5], vz=b[6])
        sim.integrator = "trace"
        sim.ri_trace.peri_mode = mode
        sim.dt = T / n
        sim.steps(n)
        sim.synchronize()
        ref = self.refs[(e, m, sgn)]
        scale = max(abs(v) for r in ref for v in r)
        err = 0.0
        for i in range(sim.N):
            q = sim.particles[i]
            for k, v in enumerate((q.x, q.y, q.z)):
                d = abs(v - ref[i][k])
                err = max(err, d if d == d else float("inf"))
        return err / scale, sim.t - T


def run(ctx):
    rebound = ctx.use("rel")
    # references (pure mathematics: computed once per run)
    refs = {}
    for sysn in ("S3", "S3t", "S4G"):
        G, b, P = lattice.system(sysn)
        N = len(b)
        for sgn in (1, -1):
            for tp in (0, 1, 2):
                # tp 1: the last body is a massless test particle; tp 2: it keeps its mass, feels and is felt by the active bodies
                # (test-particle type 1) -- with a single such body that is the full N-body problem
                bb = [list(x) for x in b]
                if tp == 1:
                    bb[-1][0] = 0.0
                y = refmath.nbody_reference(G, bb, sgn * 2 * P)
                refs[(sysn, sgn, tp)] = [[float(y[3 * i + c]) for c in range(3)] for i in range(N)]
    st = refmath.selftest()
    if st > 1e-14:
        ctx.violation("reference-selftest", "the longdouble reference integrator misses the analytic two-body solution by %g" % st, {})
    pts = lattice.integrator_points("full", avx=False)
    cfgs = []
    for integ, o in pts:
        for sysn in (("S3", "S3t", "S4G") if ctx.tier == "thorough" else ("S3",)):
            for tp in (0, 1, 2):
                for sgn in (1, -1):
                    if ctx.tier == "quick" and (tp, sgn) not in ((0, 1), (0, -1), (1, 1), (2, -1)):
                        continue
                    cfgs.append({"integ": integ, "o": o, "sys": sysn, "tp": tp, "dtsign": sgn})
    if ctx.tier == "quick":
        # G != 1 (system S4G) at least for the schemes that evaluate extra force-like terms (jerk of the modified kick, correctors)
        # and for one representative of every other family
        seen_fam = set()
        for integ, o in pts:
            special = (integ == "whfast" and (o.get("kernel", "default") != "default" or o.get("corrector", 0))) or (integ == "saba" and str(o.get("type", "")).startswith("c"))
            if special or integ not in seen_fam:
                seen_fam.add(integ)
                cfgs.append({"integ": integ, "o": o, "sys": "S4G", "tp": 0, "dtsign": 1})
    cfgs = ctx.shuffled(cfgs)
    ctx.note("configurations: %d" % len(cfgs))
    res = pool.run_tasks(Run(rebound, refs), cfgs, timeout=120, chunk=8, progress=lambda d, n: ctx.note("configurations %d/%d" % (d, n)))
    E = {}
    ntested = 0
    for cfg, r in zip(cfgs, res):
        lab = lattice.cfg_label(cfg)
        integ, o = cfg["integ"], cfg["o"]
        fam = "%s/tp%d" % (integ, cfg["tp"])
        if r[0] != "ok":
            ctx.violation("run-%s:%s" % (r[0], integ), "%s for %s: %s" % (r[0], lab, str(r[1])[-400:]), {"cfg": cfg})
            continue
        if r[1][0] != "ok":
            ctx.violation("time:%s" % integ, "integration of %s ended at t=%r instead of %r" % (lab, r[1][1], r[1][2]), {"cfg": cfg})
            continue
        errs = r[1][1]
        E[(integ, tuple(sorted(o.items())), cfg["sys"], cfg["tp"], cfg["dtsign"])] = errs
        if any(e != e or e == float("inf") for e in errs):
            ctx.violation("nan:%s" % fam, "non-finite result for %s" % lab, {"cfg": cfg})
            continue
        p = advertised_order(integ, o)
        if p is None:
            # tolerance-controlled: accuracy class
            if integ == "ias15":
                bound = 1e-11
            else:
                bound = 3e3 * max(o.get("eps_rel", 1e-8), 1e-13)
            ntested += 1
            if errs[0] > bound:
                ctx.violation("accuracy-class:%s" % fam, "%s: error %.3g after two orbits, the integrator's class allows %.3g" % (lab, errs[0], bound), {"cfg": cfg})
            continue
        floor = FLOOR
        if integ == "janus":
            floor = max(FLOOR, 1e5 * o.get("scale_pos", 1e-16))
        # (a) order: the error shrinks at the advertised rate -- over the finest halving (2^(p-1/2)) or over both halvings
        # (4^(p-1/2)); schemes of order >= 6 are not yet asymptotic at P/20, which is why either suffices.  Pairs whose
        # finer member has reached the rounding floor are not used.
        if errs[2] > 20 * floor:
            ntested += 1
            r2, r1 = errs[0] / errs[2], errs[1] / errs[2]
            if not (r2 >= 4.0 ** (p - 0.5) or r1 >= 2.0 ** (p - 0.5)):
                ctx.violation("order:%s:p%d" % (fam, p), "%s: errors %.3g, %.3g, %.3g at h, h/2, h/4: ratios %.3g (two halvings) and %.3g (last halving), advertised order %d requires %.3g or %.3g" % (
                    lab, errs[0], errs[1], errs[2], r2, r1, p, 4.0 ** (p - 0.5), 2.0 ** (p - 0.5)), {"cfg": cfg})
        elif errs[1] > 20 * floor:
            ntested += 1
            need = 2.0 ** (p - 1.5)
            if not errs[0] / errs[1] >= need:
                ctx.violation("order:%s:p%d" % (fam, p), "%s: errors %.3g, %.3g at h, h/2 (h/4 is at the rounding floor): ratio %.3g, advertised order %d requires %.3g" % (lab, errs[0], errs[1], errs[0] / errs[1], p, need), {"cfg": cfg})
        # converged at all: the coarsest run is not garbage
        if errs[0] > 0.9:
            ctx.violation("diverged:%s" % fam, "%s: error %.3g of the system size at h=P/20" % (lab, errs[0]), {"cfg": cfg})
    # (c) advertised differential relations
    def get(integ, o, sysn, tp, sgn):
        return E.get((integ, tuple(sorted(o.items())), sysn, tp, sgn))
    nrel = 0
    for (integ, ot, sysn, tp, sgn), errs in E.items():
        o = dict(ot)
        if integ == "whfast":
            if o.get("corrector", 0) >= 3:
                base = get(integ, dict(o, corrector=0), sysn, tp, sgn)
                if base and base[0] > 100 * FLOOR:
                    nrel += 1
                    if errs[0] > 0.3 * base[0]:
                        ctx.violation("relation:corrector:%s/tp%d" % (o.get("coordinates"), tp), "%s corrector %d: error %.3g is not below 0.3 x the uncorrected %.3g [%s tp%d dir%+d]" % (
                            o.get("coordinates"), o["corrector"], errs[0], base[0], sysn, tp, sgn), {"integ": integ, "o": o, "sys": sysn, "tp": tp, "dtsign": sgn})
                if o.get("kernel", "default") != "default":
                    base = get(integ, dict(o, kernel="default"), sysn, tp, sgn)
                    if base and base[0] > 100 * FLOOR:
                        nrel += 1
                        if errs[0] > (0.5 if o["corrector"] >= 11 else 1.5) * base[0]:
                            ctx.violation("relation:kernel:%s/tp%d" % (o["kernel"], tp), "kernel %s with corrector %d: error %.3g exceeds 1.5 x (0.5 x from corrector 11) the default kernel's %.3g [%s tp%d dir%+d]" % (
                                o["kernel"], o["corrector"], errs[0], base[0], sysn, tp, sgn), {"integ": integ, "o": o, "sys": sysn, "tp": tp, "dtsign": sgn})
        # mirror image under time reversal
        other = E.get((integ, ot, sysn, tp, -sgn))
        if other and sgn == 1 and max(errs[0], other[0]) > 100 * FLOOR:
            nrel += 1
            if not (0.01 <= errs[0] / other[0] <= 100):
                ctx.violation("relation:direction:%s/tp%d" % (integ, tp), "%s%s: error %.3g forward but %.3g backward [%s tp%d]" % (integ, o, errs[0], other[0], sysn, tp), {"integ": integ, "o": o, "sys": sysn, "tp": tp})
    # user-defined ODEs
    ot = []
    for integ in ("bs", "ias15", "whfast", "mercurius"):
        for kind in ("harmonic", "timedep") + (("coupled",) if integ == "bs" else ()):
            for eps in ((1e-8, 1e-11) if integ == "bs" else (1e-8,)):
                ot.append((integ, kind, eps))
    for integ in ("ias15", "bs"):
        for kind in ("harmonic", "timedep"):
            for dt0 in (1e-3, 3e-2):
                for sgn in (1, -1):
                    ot.append((integ, kind, 1e-8, dt0, sgn))
    for integ in ("ias15", "whfast"):
        ot.append((integ, "harmonic", 1e-8, None, -1))
    ores = pool.run_tasks(ODEs(rebound), ot, timeout=120, chunk=1)
    ode_err = {}
    for t, r in zip(ot, ores):
        if r[0] != "ok":
            ctx.violation("ode-%s:%s:%s" % (r[0], t[0], t[1]), "%s in user-ODE case %s: %s" % (r[0], t, str(r[1])[-400:]), {"ode": list(t)})
            continue
        ode_err[t] = r[1]
        # user ODEs are advanced by the BS machinery with the tolerances of ri_bs under every integrator
        bound = 3e3 * t[2]
        if t[1] == "coupled" and t[0] not in ("bs", "ias15"):
            bound = max(bound, 1e-3)      # the N-body state it reads has the integrator's own error
        if not (r[1] <= bound):
            extra = "" if len(t) <= 3 else " (initial step %s, %s)" % (t[3], "forward" if t[4] > 0 else "backward")
            ctx.violation("ode-accuracy:%s:%s" % (t[0], t[1]), "user ODE '%s' advanced together with %s (eps %g)%s: error %.3g, allowed %.3g" % (t[1], t[0], t[2], extra, r[1], bound), {"ode": list(t)})
    for kind in ("harmonic", "timedep", "coupled"):
        a, bb = ode_err.get(("bs", kind, 1e-8)), ode_err.get(("bs", kind, 1e-11))
        if a is not None and bb is not None and a > 1e-11 and bb > a * 0.5 and bb > 1e-10:
            ctx.violation("ode-tolerance-scaling:%s" % kind, "user ODE '%s' under BS: error %.3g at eps 1e-8 and %.3g at eps 1e-11 (does not shrink with the tolerance)" % (kind, a, bb), {"ode": ["bs", kind]})
    # TRACE pericentre prescriptions
    prefs = {}
    PERI_E, PERI_M = (0.9, 0.99), (1e-3, 1e-5, 1e-12)
    for e in PERI_E:
        for m in PERI_M:
            for sgn in (1, -1):
                G, bodies, P = peri_bodies(e, m)
                y = refmath.nbody_reference(G, bodies, sgn * P)
                prefs[(e, m, sgn)] = [[float(y[3 * i + c]) for c in range(3)] for i in range(len(bodies))]
    PERI_MODES = ("PARTIAL_BS", "FULL_BS", "FULL_IAS15")
    pt = [(e, m, sgn, mode, n) for e in PERI_E for m in PERI_M for sgn in (1, -1) for mode in PERI_MODES for n in (40, 80, 160)]
    pres = pool.run_tasks(TracePeri(rebound, prefs), pt, timeout=120, chunk=2)
    perr = {}
    for t, r in zip(pt, pres):
        e, m, sgn, mode, n = t
        lab = "TRACE peri_mode=%s, inner planet e=%g m=%g, %d steps over one period %s" % (mode, e, m, n, "forward" if sgn > 0 else "backward")
        d = "forward" if sgn > 0 else "backward"
        if r[0] != "ok":
            ctx.violation("trace-peri:%s:%s:%s" % (r[0], mode, d), "%s: %s: %s" % (lab, r[0], str(r[1])[-300:]), {"peri": list(t)})
            continue
        err, dtm = r[1]
        perr[t] = err
        if not (abs(dtm) <= 1e-9):
            ctx.violation("trace-peri:time:%s:%s" % (mode, d), "%s: ended %.3g away from the requested time" % (lab, dtm), {"peri": list(t)})
        # Wisdom-Holman class: the error is proportional to the planets' masses; whatever the prescription, the pericentre itself is
        # integrated by BS (eps 1e-8) or IAS15, so the result must be in BS's accuracy class relative to that
        bound = 3e3 * 1e-8 + 30 * m
        if not err <= bound:
            ctx.violation("trace-peri:accuracy:%s:%s" % (mode, d), "%s: error %.3g of the system size against the longdouble reference, allowed %.3g (BS class 3e-5 + 30 x planet mass)" % (lab, err, bound), {"peri": list(t)})
    nperi = len(pt)
    for (e, m, sgn, mode, n), err in perr.items():
        # the three prescriptions advertise the same accuracy: none may be an order of magnitude worse than the best of them
        best = min(perr.get((e, m, sgn, mo, n), float("inf")) for mo in PERI_MODES)
        if not (err <= 10 * best + 3e-7):      # 30 x the BS tolerance: BS-based prescriptions are not held to IAS15's accuracy
            ctx.violation("trace-peri:relation:%s:%s" % (mode, "forward" if sgn > 0 else "backward"),
                          "TRACE peri_mode=%s, inner planet e=%g m=%g, %d steps %s: error %.3g, but %.3g with another pericentre prescription" % (mode, e, m, n, "forward" if sgn > 0 else "backward", err, best), {"peri": [e, m, sgn, mode, n]})
    # WHFast512 exists only in the AVX512 build: its part runs in a process of its own (mc/w512.py)
    from .. import w512
    n_w512 = w512.run(ctx, "C01")
    cov = {
        "whfast512_cases": n_w512,
        "evaluations": len(cfgs) * 3 + len(ot) + nperi, "distinct_nontrivial": ntested + nrel + len(ot) + nperi, "trace_pericentre_cases": nperi,
        "rule": "every point of the documented option lattice (%d integrator settings) x test-particle setting {all active, type 0, type 1} x direction (quick: 4 of the 6 combinations) x system, at h=P/20, P/40, P/80 over two inner periods; "
                "non-trivial = order or accuracy-class tests actually applied (error above the floor) + differential relations + user-ODE cases" % len(pts),
        "samples": [cfgs[0], cfgs[-1]], "order_or_class_tests": ntested, "relations_checked": nrel, "ode_cases": len(ot), "reference_selftest_error": st, "exhaustive": True,
    }
    return ctx.finish(LEVEL, cov, assumptions=[
        "reference: Gragg-Bulirsch-Stoer extrapolation in numpy.longdouble written for this purpose, self-validated on the analytic two-body problem in every run",
        "order test: E(h)/E(h/4) >= 4^(p-1/2) with p the advertised order (lower bound for generalised-order schemes); or E(h/2)/E(h/4) >= 2^(p-1/2); pairs within 20x of the rounding/reference floor are not used; floor %g" % FLOOR,
        "initial conditions are reduced to the systems S3 / S3t / S4G; WHFast512 and SEI are not in this check",
    ])


def replay(ctx, case):
    return run(ctx)
