"""C15 -- boundary conditions and the spatial tree keep every particle accounted for.

Ballistic particles (leapfrog, no gravity force needed for the bookkeeping) from an alphabet of positions on
and near box faces / cell borders and velocities crossing up to 2.3 boxes per step, under
boundary {open, periodic, shear} x root layouts {1x1x1, 2x1x1, 2x2x1, 1x3x1, 1x2x2} x module {tree gravity, tree collisions, none},
through every history of <= depth operations {step, lazy remove, add, move_to_com}.  After every operation:
boundary oracle (inside the box, N, whole-box displacements, shear offsets; open: exactly the outside ones gone)
and a read-only walk of the tree (each particle in exactly one leaf that contains it, back pointers, counters,
cell mass / centre of mass).
"""
import ctypes
import itertools
import math

from .. import pool, rb

LEVEL = "model_checking"
ASAN = True

ROOT = 4.0       # root box size
DT = 1.0
OMEGA = 0.3


class Cell(ctypes.Structure):
    pass


Cell._fields_ = [("x", ctypes.c_double), ("y", ctypes.c_double), ("z", ctypes.c_double), ("w", ctypes.c_double),
                 ("m", ctypes.c_double), ("mx", ctypes.c_double), ("my", ctypes.c_double), ("mz", ctypes.c_double),
                 ("oct", ctypes.c_void_p * 8), ("pt", ctypes.c_int), ("remote", ctypes.c_int)]

LAYOUTS = {"1x1x1": (1, 1, 1), "2x1x1": (2, 1, 1), "2x2x1": (2, 2, 1), "1x3x1": (1, 3, 1), "1x2x2": (1, 2, 2)}     # incl. N_root_y > N_root_x and N_root_z > 1


def alphabet(layout):
    nx, ny, nz = LAYOUTS[layout]
    Lx, Ly, Lz = ROOT * nx, ROOT * ny, ROOT * nz
    d = 1e-3
    P = [(0.0, 0.0, 0.0), (Lx / 2 - d, 0.3, 0.1), (-Lx / 2 + d, -0.4, -0.2), (0.2, Ly / 2 - d, 0.3), (d, d, d), (-d, 0.5, -d),
         (Lx / 2, 0.7, -0.6), (0.6, -Ly / 2, Lz / 2 - d), (ROOT / 2 - d if nx == 1 else d, 1.1, 0.9), (-1.3, 0.2, -Lz / 2 + d)]
    Vs = [(0.0, 0.0, 0.0), (0.6 * Lx, 0.0, 0.0), (-0.6 * Lx, 0.1, 0.0), (0.0, 0.6 * Ly, 0.0), (2.3 * Lx, -0.6 * Ly, 0.0), (-2.3 * Lx, 2.3 * Ly, 0.05),
          (0.01, -2.3 * Ly, -0.6 * Lz), (0.3, 0.2, 0.7 * Lz)]
    out = []
    k = 0
    for i, p in enumerate(P):
        v = Vs[(i * 3 + 1) % len(Vs)]
        out.append((p, v))
        v2 = Vs[(i * 5 + 2) % len(Vs)]
        if i % 2 == 0:
            out.append((p, v2))
    # several box heights per step through the lower and through the upper vertical face
    out.append(((0.2, -0.3, -Lz / 2 + d), (0.1, 0.2, -3.4 * Lz)))
    out.append(((-0.2, 0.3, Lz / 2 - d), (-0.2, 0.1, 2.3 * Lz)))
    return out, (Lx, Ly, Lz)


def walk(sim):
    """-> (leaves: list of (addr, cell, pt), internal: list of (cell, count_below, mass_sums)), or raises ValueError on a malformed tree"""
    out_leaves = []
    problems = []
    if not sim._tree_root:
        return out_leaves, problems, []
    nroot = sim.N_root
    roots = (ctypes.c_void_p * nroot).from_address(sim._tree_root)

    def rec(addr, depth):
        if depth > 60:
            raise ValueError("tree deeper than 60 levels")
        c = Cell.from_address(addr)
        if c.pt >= 0:
            out_leaves.append((addr, c.x, c.y, c.z, c.w, c.pt))
            return 1, [(c.pt,)]
        n = 0
        below = []
        for o in range(8):
            if c.oct[o]:
                k, b = rec(c.oct[o], depth + 1)
                n += k
                below += b
                ch = Cell.from_address(c.oct[o])
                # child geometry
                if not (abs(ch.w - c.w / 2) <= 1e-12 * c.w):
                    problems.append("child width %r of a cell of width %r" % (ch.w, c.w))
        if c.pt != -n:
            problems.append("internal cell at (%g,%g,%g) w=%g has pt=%d but %d particles below" % (c.x, c.y, c.z, c.w, c.pt, n))
        internals.append((c.x, c.y, c.z, c.w, c.m, c.mx, c.my, c.mz, [b[0] for b in below]))
        return n, below
    internals = []
    for i in range(nroot):
        if roots[i]:
            rec(roots[i], 0)
    return out_leaves, problems, internals


class Case:
    def __init__(self, rebound):
        self.rebound = rebound
        cl = rebound.clibrebound
        self.cl = cl

    def build(self, cfg):
        rebound = self.rebound
        boundary, layout, module = cfg["boundary"], cfg["layout"], cfg["module"]
        nx, ny, nz = LAYOUTS[layout]
        sim = rebound.Simulation()
        sim.configure_box(ROOT, nx, ny, nz)
        sim.boundary = boundary
        if boundary == "shear":
            sim.ri_sei.OMEGA = OMEGA
        if boundary in ("periodic", "shear"):
            sim.N_ghost_x = sim.N_ghost_y = 1
        sim.integrator = "leapfrog"
        sim.dt = DT
        def select_module():
            if module == "treegrav":
                sim.gravity = "tree"
                sim.G = 1e-30          # forces negligible: trajectories stay ballistic, bookkeeping is what is under test
                sim.opening_angle2 = 0.25
            else:
                sim.gravity = "none"
            if module in ("treecol", "linecol"):
                sim.collision = "tree" if module == "treecol" else "linetree"
                sim.collision_resolve = "hardsphere"
        late = cfg.get("late", False)       # the tree-based module is chosen only after the particles have been added
        if not late:
            select_module()
        else:
            sim.gravity = "none"
        alpha, L = alphabet(layout)
        for k, idx in enumerate(cfg["parts"]):
            (p, v) = alpha[idx]
            sim.add(m=1.0 + 0.25 * k, x=p[0], y=p[1], z=p[2], vx=v[0], vy=v[1], vz=v[2], r=1e-6, hash=100 + k)
        if late:
            select_module()
        return sim, L

    def snapshot(self, sim):
        return {p.hash.value: (p.x, p.y, p.z, p.vx, p.vy, p.vz, p.m, p.y != p.y) for p in sim.particles}

    def inside(self, x, y, z, L):
        return abs(x) <= L[0] / 2 and abs(y) <= L[1] / 2 and abs(z) <= L[2] / 2

    def check_tree(self, sim, cfg, V, where, gravdata):
        tag = "%s/%s/%s%s parts=%s" % (cfg["boundary"], cfg["layout"], cfg["module"], "(selected after adding the particles)" if cfg.get("late") else "", cfg["parts"])
        if cfg["module"] == "none":
            return
        try:
            leaves, problems, internals = walk(sim)
        except (ValueError, RecursionError) as e:
            V.append(("tree:malformed", "tree walk failed: %s after %s [%s]" % (e, where, tag)))
            return
        for pr in problems[:2]:
            V.append(("tree:counter", "%s after %s [%s]" % (pr, where, tag)))
        n = sim.N
        seen = {}
        base = ctypes.addressof(sim._particles.contents) if n else 0
        for (addr, cx, cy, cz, w, pt) in leaves:
            if not (0 <= pt < n):
                V.append(("tree:leaf-index-out-of-range", "leaf holds particle index %d but N=%d after %s [%s]" % (pt, n, where, tag)))
                continue
            seen[pt] = seen.get(pt, 0) + 1
            p = sim._particles[pt]
            if p.y != p.y:
                continue
            if abs(p.x - cx) > w / 2 * (1 + 1e-12) or abs(p.y - cy) > w / 2 * (1 + 1e-12) or abs(p.z - cz) > w / 2 * (1 + 1e-12):
                V.append(("tree:particle-outside-its-leaf", "particle %d at (%g,%g,%g) lies outside its leaf cell centre (%g,%g,%g) width %g after %s [%s]" % (pt, p.x, p.y, p.z, cx, cy, cz, w, where, tag)))
            if p.c != addr:
                V.append(("tree:back-pointer", "particles[%d].c does not point to the leaf that holds it after %s [%s]" % (pt, where, tag)))
        for i in range(n):
            if seen.get(i, 0) != 1:
                V.append(("tree:particle-in-%d-leaves" % seen.get(i, 0), "particle index %d sits in %d leaves (N=%d) after %s [%s]" % (i, seen.get(i, 0), n, where, tag)))
                break
        if gravdata and cfg["module"] == "treegrav":
            for (cx, cy, cz, w, m, mx, my, mz, below) in internals:
                M = sum(sim._particles[i].m for i in below)
                if M <= 0:
                    continue
                X = [sum(sim._particles[i].m * getattr(sim._particles[i], a) for i in below) / M for a in ("x", "y", "z")]
                if abs(m - M) > 1e-12 * M or max(abs(a - b) for a, b in zip((mx, my, mz), X)) > 1e-10 * (abs(cx) + abs(cy) + abs(cz) + w):
                    V.append(("tree:cell-mass-or-com", "cell (%g,%g,%g) w=%g has m=%r com=(%g,%g,%g), contents sum to m=%r com=%s after %s [%s]" % (cx, cy, cz, w, m, mx, my, mz, M, X, where, tag)))
                    break

    def __call__(self, task):
        cfg, hist = task
        rb.quiet()
        rebound = self.rebound
        cl = self.cl
        V = []
        tag = "%s/%s/%s%s parts=%s" % (cfg["boundary"], cfg["layout"], cfg["module"], "(selected after adding the particles)" if cfg.get("late") else "", cfg["parts"])
        try:
            sim, L = self.build(cfg)
        except RuntimeError as e:
            return [], "build-refused"
        alpha, _ = alphabet(cfg["layout"])
        alive = set(p.hash.value for p in sim.particles)
        nadd = 0
        for k, op in enumerate(hist):
            where = "history %s" % (hist[:k + 1],)
            before = self.snapshot(sim)
            t0 = sim.t
            if op == "step":
                try:
                    sim.step()
                except RuntimeError as e:
                    V.append(("step-error:%s" % cfg["boundary"], "step raised %s after %s [%s]" % (str(e)[:80], where, tag)))
                    break
                after = self.snapshot(sim)
                dt = sim.t - t0
                if cfg["boundary"] in ("periodic", "shear"):
                    if set(after) != set(before):
                        V.append(("boundary:%s:N-changed" % cfg["boundary"], "particles %s -> %s in a step with %s boundary after %s [%s]" % (sorted(before), sorted(after), cfg["boundary"], where, tag)))
                        break
                    for h, a in after.items():
                        b = before[h]
                        if b[7]:
                            continue
                        if not self.inside(a[0], a[1], a[2], L):
                            V.append(("boundary:%s:outside-box" % cfg["boundary"], "particle %d at (%g,%g,%g) is outside the box %s after %s [%s]" % (h, a[0], a[1], a[2], L, where, tag)))
                            break
                        fx, fz = b[0] + b[3] * dt, b[2] + b[5] * dt
                        nxs = (fx - a[0]) / L[0]
                        nzs = (fz - a[2]) / L[2]
                        if abs(nxs - round(nxs)) > 1e-9 or abs(nzs - round(nzs)) > 1e-9:
                            V.append(("boundary:%s:non-integer-shift" % cfg["boundary"], "particle %d moved by a non-integer number of box lengths in x or z (%.6f, %.6f) after %s [%s]" % (h, nxs, nzs, where, tag)))
                            break
                        n = int(round(nxs))
                        if cfg["boundary"] == "periodic":
                            fy = b[1] + b[4] * dt
                            nys = (fy - a[1]) / L[1]
                            if abs(nys - round(nys)) > 1e-9 or max(abs(p - q) for p, q in zip(a[3:6], b[3:6])) > 1e-20:
                                V.append(("boundary:periodic:y-or-velocity", "particle %d: y shift %.6f boxes, velocity %s -> %s after %s [%s]" % (h, nys, b[3:6], a[3:6], where, tag)))
                                break
                        else:
                            dvy = a[4] - b[4]
                            want = 1.5 * OMEGA * L[0] * n
                            if not (abs(dvy - want) <= 1e-9 * (abs(want) + 1)):
                                V.append(("boundary:shear:vy-offset", "particle %d crossed %d radial faces, vy changed by %g, expected %g after %s [%s]" % (h, n, dvy, want, where, tag)))
                                break
                            ok = False
                            for tstar, mid in ((sim.t, False), (t0 + dt / 2, True)):
                                fy = b[1] + b[4] * dt + n * 1.5 * OMEGA * L[0] * tstar + (want * dt / 2 if mid else 0.0)
                                nys = (fy - a[1]) / L[1]
                                if abs(nys - round(nys)) < 1e-9:
                                    ok = True
                            if not ok:
                                V.append(("boundary:shear:y-offset", "particle %d (crossed %d radial faces): y=%g is not the free drift plus the shear offset modulo the box after %s [%s]" % (h, n, a[1], where, tag)))
                                break
                elif cfg["boundary"] == "open":
                    want = set()
                    for h, b in before.items():
                        if b[7]:
                            continue
                        fx, fy, fz = b[0] + b[3] * dt, b[1] + b[4] * dt, b[2] + b[5] * dt
                        if self.inside(fx, fy, fz, L):
                            want.add(h)
                        else:
                            # on a face within rounding: either answer
                            if min(abs(abs(fx) - L[0] / 2), abs(abs(fy) - L[1] / 2), abs(abs(fz) - L[2] / 2)) < 1e-12:
                                want.add(("maybe", h))
                    got = set(h for h, a in after.items() if not a[7])
                    must = set(h for h in want if not isinstance(h, tuple))
                    maybe = set(h[1] for h in want if isinstance(h, tuple))
                    if not (must <= got <= (must | maybe)):
                        V.append(("boundary:open:survivors", "after a step with open boundaries the survivors are %s, the particles still inside the box are %s (before: %s) after %s [%s]" % (sorted(got), sorted(must), sorted(before), where, tag)))
                        break
            elif op == "remove":
                n = sim.N
                if n == 0:
                    continue
                i = (k * 7 + 1) % n
                sim.remove(index=i, keep_sorted=(cfg["module"] == "none"))
                if cfg["module"] != "none":
                    sim.update_tree()       # documented: "update the tree structure manually after removing particles"
            elif op == "add":
                (p, v) = alpha[(3 + 5 * nadd) % len(alpha)]
                nadd += 1
                # avoid a duplicate position
                q = (p[0] * 0.5 + 0.11 * nadd, p[1] * 0.5 - 0.07 * nadd, p[2] * 0.5)
                try:
                    sim.add(m=0.5, x=q[0], y=q[1], z=q[2], vx=v[0], vy=v[1], vz=v[2], r=1e-6, hash=500 + nadd)
                except RuntimeError:
                    pass
            elif op == "reload":
                # a copy goes through the same reader as a restart from a file: it has to come back with a complete tree
                sim = sim.copy()
                after = self.snapshot(sim)
                if after != before:
                    V.append(("reload:particles-differ", "the copy holds different particles after %s [%s]" % (where, tag)))
                    break
            elif op == "com":
                try:
                    sim.move_to_com()
                except RuntimeError as e:
                    V.append(("move_to_com-error", "move_to_com raised %s after %s [%s]" % (str(e)[:80], where, tag)))
                    break
                after = self.snapshot(sim)
                live_b = set(h for h, b in before.items() if not b[7])
                live_a = set(h for h, a in after.items() if not a[7])
                if cfg["boundary"] in ("periodic", "shear") and live_a != live_b:
                    V.append(("move_to_com:lost-particles", "move_to_com changed the particle set %s -> %s after %s [%s]" % (sorted(live_b), sorted(live_a), where, tag)))
                    break
            if V:
                break
            # structural invariants of the tree after every operation that ends with an up-to-date tree
            # (move_to_com runs the boundary check and the tree update itself)
            if cfg["module"] != "none" and op in ("step", "com", "reload"):
                if cfg["module"] == "treegrav":
                    cl.reb_simulation_update_tree(ctypes.byref(sim))
                    cl.reb_simulation_update_tree_gravity_data(ctypes.byref(sim))
                    rb.drain_messages(sim)
                self.check_tree(sim, cfg, V, where, True)
            if V:
                break
        return V, "ok"


def histories(depth):
    ops = ["step", "remove", "add", "com", "reload"]
    out = []
    for d in range(1, depth + 1):
        for h in itertools.product(ops, repeat=d):
            if "step" not in h and "com" not in h:
                continue
            out.append(list(h))
    return out


def run(ctx):
    rebound = ctx.use("asan")
    depth = 3 if ctx.tier == "quick" else 4
    H = histories(depth)
    tasks = []
    nalpha = len(alphabet("1x1x1")[0])
    for boundary in ("open", "periodic", "shear"):
        for layout in LAYOUTS:
            for module in ("treegrav", "treecol", "linecol", "none"):
                parts = []
                for n in ((1, 2) if ctx.tier == "quick" else (1, 2, 3)):
                    parts += list(itertools.combinations(range(nalpha), n))
                if ctx.tier == "quick":
                    parts += [c for c in itertools.combinations(range(nalpha), 3) if sum(c) % 5 == 0]
                for pc in parts:
                    cfg = {"boundary": boundary, "layout": layout, "module": module, "parts": list(pc)}
                    for h in H:
                        tasks.append((cfg, h))
                if module != "none":
                    for pc in [c for c in itertools.combinations(range(nalpha), 2) if sum(c) % 3 == 0]:
                        cfg = {"boundary": boundary, "layout": layout, "module": module, "parts": list(pc), "late": True}
                        for h in H:
                            if h[0] in ("step", "com"):      # the first operation that brings the tree up to date
                                tasks.append((cfg, h))
    tasks = ctx.shuffled(tasks)
    ctx.note("cases: %d" % len(tasks))
    res = pool.run_tasks(Case(rebound), tasks, timeout=60, chunk=256, progress=lambda d, n: ctx.note("cases %d/%d" % (d, n)))
    from .. import common
    states = 0
    refused = 0
    for (cfg, h), r in zip(tasks, res):
        case = {"cfg": cfg, "history": h}
        # move_to_com() re-sorts many particles at once (boundary check + tree update inside the call): its failures are kept apart
        com = ":after-move_to_com" if ("com" in h and cfg["module"] != "none") else ""
        if r[0] != "ok":
            frag = common.classify_crash(r[1])[0] if r[0] == "crash" else r[0]
            ctx.violation("case-%s:%s:%s:%s%s" % (r[0], cfg["boundary"], cfg["module"], frag, com), "%s in %s/%s/%s parts=%s history %s: %s" % (r[0], cfg["boundary"], cfg["layout"], cfg["module"], cfg["parts"], h, str(r[1])[-600:]), case)
            continue
        V, st = r[1]
        if st != "ok":
            refused += 1
            continue
        states += len(h)
        for sig, what in V:
            ctx.violation(sig + com, what, case)
    cov = {
        "states": states, "transitions": states, "traces_validated_against_impl": len(tasks) - refused,
        "samples": [{"cfg": tasks[0][0], "history": tasks[0][1]}, {"cfg": tasks[-1][0], "history": tasks[-1][1]}],
        "cases": len(tasks), "histories_per_config": len(H), "max_depth": depth, "particle_alphabet": nalpha, "exhaustive": True,
        "rule": "boundary {open, periodic, shear} x root layout {1x1x1, 2x1x1, 2x2x1, 1x3x1, 1x2x2} x module {tree gravity, tree collisions, none} x every 1-2 (quick: plus a fifth of the 3-) subset of a 17-entry particle alphabet "
                "(positions on faces / next to faces and cell borders, velocities up to 2.3 boxes per step) x every history over {step, lazy remove, add, move_to_com} up to max_depth containing a step or move_to_com",
    }
    return ctx.finish(LEVEL, cov, assumptions=[
        "trajectories are ballistic (leapfrog, G=1e-30 or no gravity), so the free drift is known exactly and only the wrapping / removal / tree bookkeeping is under test",
        "for shear boundaries the y offset may be applied with the time of the mid-step or of the end-of-step boundary check",
        "the tree is walked read-only through a ctypes mirror of struct reb_treecell (tree.h)",
    ])


def replay(ctx, case):
    rebound = ctx.use("asan")
    V, st = Case(rebound)((case["cfg"], case["history"]))
    for v in V:
        print(v)
    return 1 if V else 0
