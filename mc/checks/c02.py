"""C02 -- every force routine computes the specified pairwise Newtonian sum.

Lattice N x N_active x testparticle_type x gravity_ignore_terms x softening x G x mass pattern x position set x
routine {BASIC, COMPENSATED, TREE(theta=0), MERCURIUS mode0+mode1, TRACE interaction+Kepler} x ghost boxes x root
layouts, each point against the pairwise sum written from the statement and evaluated in 80-bit arithmetic.
"""
import ctypes
import itertools
import math

import numpy as np

from .. import pool, rb

LEVEL = "exploration"
U = 2.0 ** -53
LD = np.longdouble

POS = [
    [(0.0, 0.0, 0.0), (1.0, 0.1, -0.05), (-0.4, 1.6, 0.2), (2.1, -1.3, 0.4), (-2.5, -0.7, -0.6), (0.3, 2.9, 1.1), (3.3, 0.9, -1.2), (-1.1, -3.0, 0.7), (1.9, 2.2, -0.3)],
    [(0.0, 0.0, 0.0), (0.013, -0.004, 0.002), (1.7, 0.0, 0.0), (-1.7, 1e-3, 0.0), (0.5, 0.5, 0.5), (-0.9, 2.4, -1.3), (2.6, -2.6, 0.1), (0.02, 0.01, -3.1), (-3.2, 0.4, 2.0)],
]
GHOSTS = [(0, 0, 0), (1, 0, 0), (1, 1, 0), (2, 2, 1)]
BOXL = 8.0


def masses(pattern, N, N_active):
    na = N if N_active == -1 else N_active
    m = []
    for i in range(N):
        if pattern == "equal":
            m.append(1.0)
        elif pattern == "geometric":
            m.append(10.0 ** (-6 * i) if i < 3 else 10.0 ** (-12 - i))
        elif pattern == "testzero":
            m.append(1.0 / (1 + i) if i < na else 0.0)
        elif pattern == "zeroactive":
            m.append(0.0 if i == 1 else 1.0 / (1 + i))
    return m


def reference(G, soft, m, X, N_active, tptype, ignore, ghosts, box, star_for=None, pair_ok=None, helio=False):
    """the statement's pairwise sum in 80-bit arithmetic. returns (acc[N][3], sumabs[N][3])
    helio: MERCURIUS/TRACE convention - particle 0 exerts no pair force (its term is the explicit star term for the
    particles listed in star_for) and feels none."""
    N = len(m)
    na = N if N_active == -1 else N_active
    a = np.zeros((N, 3), dtype=LD)
    sa = np.zeros((N, 3), dtype=LD)
    Xl = np.array(X, dtype=LD)
    ml = np.array(m, dtype=LD)
    Gl = LD(G)
    s2 = LD(soft) * LD(soft)
    gx, gy, gz = ghosts
    shifts = [(LD(i * box[0]), LD(j * box[1]), LD(k * box[2])) for i in range(-gx, gx + 1) for j in range(-gy, gy + 1) for k in range(-gz, gz + 1)]
    for i in range(N):
        for j in range(N):
            if i == j:
                continue
            # does j act on i ?
            if j < na:
                acts = True                      # active particles act on everybody
            else:
                acts = (tptype == 1 and i < na)  # test particles act on active ones iff type 1; never on each other
            if not acts:
                continue
            if ignore == 1 and {i, j} == {0, 1}:
                continue
            if ignore == 2 and (i == 0 or j == 0):
                continue
            if helio and (i == 0 or j == 0):
                continue
            if pair_ok is not None and not pair_ok(i, j):
                continue
            for sh in shifts:
                d = Xl[i] - Xl[j] + np.array(sh, dtype=LD)
                r2 = d[0] * d[0] + d[1] * d[1] + d[2] * d[2] + s2
                f = -Gl * ml[j] / (r2 * np.sqrt(r2))
                a[i] += f * d
                sa[i] += np.abs(f * d)
    if star_for is not None:
        for i in star_for:
            d = Xl[i]
            r2 = d[0] * d[0] + d[1] * d[1] + d[2] * d[2] + s2
            f = -Gl * ml[0] / (r2 * np.sqrt(r2))
            a[i] += f * d
            sa[i] += np.abs(f * d)
    return a, sa


class Case:
    def __init__(self, rebound):
        self.rebound = rebound
        self.cl = rebound.clibrebound

    def build(self, routine, N, N_active, tptype, ignore, soft, G, pattern, pset, ghosts, layout):
        rebound = self.rebound
        sim = rebound.Simulation()
        box = None
        if ghosts != (0, 0, 0) or routine == "tree":
            nx, ny, nz = layout
            sim.configure_box(BOXL, nx, ny, nz)
            box = (BOXL * nx, BOXL * ny, BOXL * nz)
            if ghosts != (0, 0, 0):
                sim.boundary = "periodic"
                sim.N_ghost_x, sim.N_ghost_y, sim.N_ghost_z = ghosts
        if routine == "tree":
            sim.gravity = "tree"
            sim.opening_angle2 = 0.0
        sim.G = G
        sim.softening = soft
        m = masses(pattern, N, N_active)
        X = []
        for i in range(N):
            p = POS[pset][i]
            if box is not None and layout != (1, 1, 1):
                # spread over the root boxes
                p = (p[0] * box[0] / 8.0, p[1] * box[1] / 8.0, p[2])
            X.append(p)
            sim.add(m=m[i], x=p[0], y=p[1], z=p[2], vx=0.1 * i, vy=-0.2, vz=0.05 * i)
        if routine in ("basic", "compensated"):
            sim.gravity = routine
        sim.N_active = N_active
        sim.testparticle_type = tptype
        sim.gravity_ignore = ignore
        return sim, m, X, box

    def acc(self, sim):
        return [(p.ax, p.ay, p.az) for p in sim.particles]

    def compare(self, got, ref, sabs, N, K, V, sig, tag, scale_extra=0.0, only=None):
        worst = 0.0
        for i in range(N):
            if only is not None and i not in only:
                continue
            for k in range(3):
                tol = K * U * (float(sabs[i][k]) + scale_extra) + 1e-300
                err = abs(got[i][k] - float(ref[i][k]))
                if not err <= tol:
                    V.append((sig, "particle %d component %d: routine gives %r, the pairwise sum is %r (|diff|=%.3g, tolerance %.3g) [%s]" % (i, k, got[i][k], float(ref[i][k]), err, tol, tag)))
                    return
                worst = max(worst, err / tol)
        return worst

    def __call__(self, task):
        routine = task[0]
        rb.quiet()
        if routine in ("mercurius", "trace"):
            return self.hybrid(task)
        if routine == "jacobi":
            return self.jacobi(task)
        if routine == "theta":
            return self.theta(task)
        routine, N, N_active, tptype, ignore, soft, G, pattern, pset, ghosts, layout = task
        V = []
        tag = "%s N=%d N_active=%d type=%d ignore=%d soft=%g G=%g masses=%s pos=%d ghosts=%s roots=%s" % (routine, N, N_active, tptype, ignore, soft, G, pattern, pset, ghosts, layout)
        sim, m, X, box = self.build(routine, N, N_active, tptype, ignore, soft, G, pattern, pset, tuple(ghosts), tuple(layout))
        if routine == "tree":
            self.cl.reb_simulation_update_tree(ctypes.byref(sim))
            self.cl.reb_simulation_update_tree_gravity_data(ctypes.byref(sim))
        self.cl.reb_simulation_update_acceleration(ctypes.byref(sim))
        rb.drain_messages(sim)
        # identify particles by mass/position (the tree may have re-ordered them): here nothing moved, order is kept
        got = self.acc(sim)
        ref, sabs = reference(G, soft, m, X, N_active, tptype, ignore, tuple(ghosts), box or (0, 0, 0))
        nimg = (2 * ghosts[0] + 1) * (2 * ghosts[1] + 1) * (2 * ghosts[2] + 1)
        K = 16.0 + 2 * N + 4 * math.sqrt(N * nimg)     # N x images summands, accumulated in a routine-specific order
        self.compare(got, ref, sabs, N, K, V, "force:%s:type%d:ignore%d:%s" % (routine, tptype, ignore, "ghost" if tuple(ghosts) != (0, 0, 0) else "noghost"), tag)
        na = N if N_active == -1 else N_active
        if V and routine == "tree" and (na != N or ignore != 0):
            # is it the sum over all particles as if all were active and no pair were skipped?  (the tree walk knows neither)
            r2, s2 = reference(G, soft, m, X, -1, tptype, 0, tuple(ghosts), box or (0, 0, 0))
            V2 = []
            self.compare(got, r2, s2, N, K, V2, "x", tag)
            if not V2:
                which = [w for w, c in (("N_active", na != N), ("gravity_ignore_terms", ignore != 0)) if c]
                V = [("force:tree:%s-ignored" % "+".join(which), "the tree routine returns the sum over all particles as sources and all pairs, %s is not honoured; e.g. %s" % (" and ".join(which), V[0][1]))]
        if V and routine == "compensated" and tuple(ghosts) != (0, 0, 0):
            r2, s2 = reference(G, soft, m, X, N_active, tptype, ignore, (0, 0, 0), (0, 0, 0))
            V2 = []
            self.compare(got, r2, s2, N, K, V2, "x", tag)
            if not V2:
                V = [("force:compensated:ghost-images-ignored", "the compensated routine returns the sum without the ghost-box images; e.g. %s" % V[0][1])]
        if not V and na == N and ignore == 0 and N >= 2:
            # all active: mass-weighted accelerations sum to zero
            for k in range(3):
                tot = math.fsum(m[i] * got[i][k] for i in range(N))
                scale = math.fsum(m[i] * float(sabs[i][k]) for i in range(N))
                if not (abs(tot) <= (16 + 2 * N) * U * scale + 1e-300):
                    V.append(("momentum:%s" % routine, "sum m_i a_i = %.3g in component %d although all particles are active (scale %.3g) [%s]" % (tot, k, scale, tag)))
                    break
        return V, 1 if N >= 2 else 0

    # ------------------------------------------------------------------ tree at finite opening angle
    def theta(self, task):
        """REB_GRAVITY_TREE with opening angle theta > 0 on clustered particles: the error against the direct softened sum obeys the
        rigorous monopole (centre-of-mass expansion) bound.  A cell is used unopened only if w <= theta d (d: distance to its centre
        of mass); its members are within sqrt(3) w of that centre of mass, the dipole term vanishes, and Taylor's theorem for
        f(x) = x/(x^2+eps^2)^(3/2) gives |error| <= 12 G sum_k m_k s_k^2 sup g, g(x) = x/(x^2+eps^2)^(5/2), where for a source at distance
        r_k from the target s_k <= t r_k/(1-t), the segment stays beyond r_k (1-t)/(1+t), t = sqrt(3) theta."""
        _, lay, eps, theta, G, pattern = task
        rebound = self.rebound
        V = []
        tag = "tree theta=%g layout=%d softening=%g G=%g masses=%s" % (theta, lay, eps, G, pattern)
        # deterministic clustered layout: 6 clusters of 5 (extent ~0.02) and 4 single particles in a root box of 200
        X = []
        st = 12345 + 977 * lay
        def nxt():
            nonlocal st
            st = (st * 1103515245 + 12345) % (2 ** 31)
            return st / 2.0 ** 31
        for c in range(6):
            cx, cy, cz = [(nxt() - 0.5) * 120.0 for _ in range(3)]
            for k in range(5):
                X.append((cx + (nxt() - 0.5) * 0.02, cy + (nxt() - 0.5) * 0.02, cz + (nxt() - 0.5) * 0.02))
        for k in range(4):
            X.append(tuple((nxt() - 0.5) * 150.0 for _ in range(3)))
        N = len(X)
        m = [1.0] * N if pattern == "equal" else [10.0 ** (-(i % 5)) for i in range(N)]
        sim = rebound.Simulation()
        sim.configure_box(200.0, 1, 1, 1)
        sim.gravity = "tree"
        sim.opening_angle2 = theta * theta
        sim.G = G
        sim.softening = eps
        for i in range(N):
            sim.add(m=m[i], x=X[i][0], y=X[i][1], z=X[i][2])
        self.cl.reb_simulation_update_tree(ctypes.byref(sim))
        self.cl.reb_simulation_update_tree_gravity_data(ctypes.byref(sim))
        self.cl.reb_simulation_update_acceleration(ctypes.byref(sim))
        rb.drain_messages(sim)
        got = self.acc(sim)
        ref, sabs = reference(G, eps, m, X, -1, 0, 0, (0, 0, 0), (0, 0, 0))
        t = LD(math.sqrt(3.0)) * LD(theta)
        q = (1 - t) / (1 + t)
        e2 = LD(eps) * LD(eps)
        Xl = np.array(X, dtype=LD)
        approx = 0
        for i in range(N):
            B = LD(0)
            for k in range(N):
                if k == i:
                    continue
                d = Xl[i] - Xl[k]
                r = np.sqrt((d * d).sum())
                sk = t * r / (1 - t)
                rho = max(q * r, LD(eps) / 2)
                B += 12 * LD(G) * LD(m[k]) * sk * sk * rho / (rho * rho + e2) ** LD(2.5)
            err = math.sqrt(sum((got[i][c] - float(ref[i][c])) ** 2 for c in range(3)))
            rnd = 64 * U * sum(float(sabs[i][c]) for c in range(3))
            if not (err <= rnd):
                approx = 1
            if not err <= float(B) + rnd:
                V.append(("tree-multipole-bound", "particle %d: |a_tree - a_direct| = %.3g exceeds the monopole bound %.3g (|a_direct| = %.3g) [%s]" % (
                    i, err, float(B), math.sqrt(sum(float(ref[i][c]) ** 2 for c in range(3))), tag)))
                break
        return V, approx

    # ------------------------------------------------------------------ MERCURIUS / TRACE splittings
    def jacobi(self, task):
        """REB_GRAVITY_JACOBI (used by the WHFast kernels and SABA): inertial accelerations whose Jacobi transform is the
        acceleration of the interaction Hamiltonian, i.e. (Jacobi transform of the full pairwise accelerations) + G eta_i x'_i/|x'_i|^3"""
        _, N, G, pattern, pset = task
        rebound = self.rebound
        V = []
        tag = "jacobi N=%d G=%g masses=%s pos=%d" % (N, G, pattern, pset)
        sim = rebound.Simulation()
        sim.G = G
        m = masses(pattern, N, -1)
        if pattern == "testzero":
            m = [1.0] + [0.0 if i % 2 else 0.3 for i in range(1, N)]
        X = [POS[pset][i] for i in range(N)]
        for i in range(N):
            sim.add(m=m[i], x=X[i][0], y=X[i][1], z=X[i][2])
        sim.integrator = "whfast"
        sim.gravity = "jacobi"
        self.cl.reb_simulation_update_acceleration(ctypes.byref(sim))
        rb.drain_messages(sim)
        got = self.acc(sim)
        ml = np.array(m, dtype=LD)
        Xl = np.array(X, dtype=LD)
        Gl = LD(G)
        # full pairwise accelerations and the size of their terms
        a = np.zeros((N, 3), dtype=LD)
        sa = np.zeros((N, 3), dtype=LD)
        for i in range(N):
            for j in range(N):
                if i != j:
                    d = Xl[i] - Xl[j]
                    r2 = (d * d).sum()
                    f = -Gl * ml[j] / (r2 * np.sqrt(r2))
                    a[i] += f * d
                    sa[i] += np.abs(f * d)

        def jac(v):
            out = np.zeros((N, 3), dtype=LD)
            s_ = ml[0] * v[0]
            eta = ml[0]
            for i in range(1, N):
                out[i] = v[i] - s_ / eta
                s_ = s_ + ml[i] * v[i]
                eta = eta + ml[i]
            return out
        xj = jac(Xl)
        want = jac(a)
        scale = jac(sa) * 0 + sa
        eta = ml[0]
        for i in range(1, N):
            sm = (ml[:i, None] * sa[:i]).sum(axis=0) / eta if eta > 0 else 0
            eta = eta + ml[i]
            r2 = (xj[i] * xj[i]).sum()
            k = Gl * eta / (r2 * np.sqrt(r2)) * xj[i]
            want[i] += k
            scale[i] = sa[i] + sm + np.abs(k)
        gj = jac(np.array(got, dtype=LD))
        for i in range(1, N):
            for c in range(3):
                tol = (64 + 8 * N) * U * float(scale[i][c]) + 1e-300
                if not (abs(float(gj[i][c] - want[i][c])) <= tol):
                    V.append(("force:jacobi", "Jacobi transform of the routine's accelerations, particle %d component %d: %r, the interaction Hamiltonian gives %r (|diff| %.3g, tolerance %.3g) [%s]" % (
                        i, c, float(gj[i][c]), float(want[i][c]), abs(float(gj[i][c] - want[i][c])), tol, tag)))
                    return V, 1
        return V, 1

    def hybrid(self, task):
        routine, N, N_active, tptype, soft, G, pattern, pset, enc, extra = task
        rebound = self.rebound
        cl = self.cl
        V = []
        tag = "%s N=%d N_active=%d type=%d soft=%g G=%g masses=%s pos=%d encounter=%s extra=%s" % (routine, N, N_active, tptype, soft, G, pattern, pset, enc, extra)
        m = masses(pattern, N, N_active)
        # heliocentric: star at the origin; encounter members close together, the others far away
        X = [(0.0, 0.0, 0.0)]
        for i in range(1, N):
            if i in enc:
                k = enc.index(i)
                X.append((1.0 + 0.07 * k, 0.05 * k * (-1) ** k, 0.02 * k))
            else:
                X.append((-3.0 - 2.5 * i, 4.0 + 1.5 * i * (-1) ** i, 0.5 * i))
        if pset == 1:
            X = [(x * 1.3, y * 0.9 + 0.01 * x, z - 0.003 * x) for (x, y, z) in X]
        sim = rebound.Simulation()
        sim.G = G
        sim.softening = soft
        for i in range(N):
            sim.add(m=m[i], x=X[i][0], y=X[i][1], z=X[i][2])
        sim.N_active = N_active
        sim.testparticle_type = tptype
        sim.integrator = routine
        sim.gravity = routine
        na = N if N_active == -1 else N_active
        emap = [0] + sorted(enc)
        e_active = len([i for i in emap if i < na])
        emap_c = (ctypes.c_int * N)(*(emap + [0] * (N - len(emap))))
        only_enc = set(emap) - {0}
        if routine == "mercurius":
            rim = sim.ri_mercurius
            rim.L = extra          # switching function
            # switching radii: big enough that every pair inside the encounter set is partially switched (0<L<1)
            dcrit = (ctypes.c_double * N)(*[0.0] + [0.3 + 0.05 * i if i in enc else 0.4 for i in range(1, N)])
            rim._dcrit = ctypes.cast(dcrit, ctypes.POINTER(ctypes.c_double))
            rim._N_allocated_dcrit = N
            rim._encounter_map = ctypes.cast(emap_c, ctypes.POINTER(ctypes.c_int))
            rim._encounter_N = len(emap)
            rim._encounter_N_active = e_active
            rim.mode = 0
            cl.reb_simulation_update_acceleration(ctypes.byref(sim))
            a0 = self.acc(sim)
            rim.mode = 1
            cl.reb_simulation_update_acceleration(ctypes.byref(sim))
            a1 = self.acc(sim)
            rim._dcrit = ctypes.POINTER(ctypes.c_double)()
            rim._N_allocated_dcrit = 0
            rim._encounter_map = ctypes.POINTER(ctypes.c_int)()
            rim.mode = 0
            pair_in = None
        else:
            rit = sim.ri_trace
            Ks = (ctypes.c_int * (N * N))()
            mask = extra
            pairs = [(j, i) for i in emap[1:] for j in emap[1:] if j < i]
            for b, (j, i) in enumerate(pairs):
                if (mask >> b) & 1:
                    Ks[j * N + i] = 1
            rit._current_Ks = ctypes.cast(Ks, ctypes.POINTER(ctypes.c_int))
            rit._encounter_map = ctypes.cast(emap_c, ctypes.POINTER(ctypes.c_int))
            rit._encounter_N = len(emap)
            rit._encounter_N_active = e_active
            rit._mode = 0
            cl.reb_simulation_update_acceleration(ctypes.byref(sim))
            a0 = self.acc(sim)
            rit._mode = 1
            cl.reb_simulation_update_acceleration(ctypes.byref(sim))
            a1 = self.acc(sim)
            rit._current_Ks = ctypes.POINTER(ctypes.c_int)()
            rit._encounter_map = ctypes.POINTER(ctypes.c_int)()
            rit._mode = 2
        rb.drain_messages(sim)
        # mode 1 only touches encounter members; for the others the mode-1 array still holds the mode-0 values
        tot = []
        for i in range(N):
            if i in only_enc:
                tot.append(tuple(a0[i][k] + a1[i][k] for k in range(3)))
            else:
                tot.append(a0[i])
        ref, sabs = reference(G, soft, m, X, N_active, tptype, 0, (0, 0, 0), (0, 0, 0), star_for=sorted(only_enc), helio=True)
        K = 32.0 + 4 * N
        self.compare(tot, ref, sabs, N, K, V, "split-sum:%s:type%d" % (routine, tptype), tag, only=set(range(1, N)))
        return V, 1


def run(ctx):
    rebound = ctx.use("rel")
    tasks = []
    Ns = [0, 1, 2, 3, 4, 5] + ([9] if ctx.tier == "thorough" else [])
    for routine in ("basic", "compensated", "tree"):
        for N in Ns:
            nas = [-1] + list(range(0, N + 1))
            for N_active in nas:
                for tptype in (0, 1):
                    for ignore in (0, 1, 2):
                        for soft in (0.0, 0.1):
                            for G in (1.0, 2.5):
                                for pattern in ("equal", "geometric", "testzero", "zeroactive"):
                                    for pset in (0, 1):
                                        ghs = GHOSTS
                                        if routine == "tree" and (N_active not in (-1, N) or ignore != 0) and (pset != 0 or soft != 0.0 or G != 1.0):
                                            continue    # the walk has no notion of test particles or skipped pairs (recorded finding): a sub-lattice suffices
                                        if routine == "compensated" and (pset != 0 or G != 1.0):
                                            ghs = [(0, 0, 0)]   # no ghost-box images in this routine (recorded finding): a sub-lattice suffices
                                        for gh in ghs:
                                            if ctx.tier == "quick" and gh == (2, 2, 1) and (G != 1.0 or soft != 0.0):
                                                continue
                                            lays = [(1, 1, 1)] if (routine != "tree" and gh == (0, 0, 0)) else ([(1, 1, 1), (2, 1, 1), (2, 2, 1)] if routine == "tree" else [(1, 1, 1), (2, 1, 1)])
                                            for lay in lays:
                                                if N_active != -1 and N_active > N:
                                                    continue
                                                tasks.append((routine, N, N_active, tptype, ignore, soft, G, pattern, pset, gh, lay))
    # the Jacobi routine of the WHFast kernels / SABA
    for N in ([2, 3, 4, 5, 6] + ([9] if ctx.tier == "thorough" else [])):
        for G in (1.0, 2.5):
            for pattern in ("equal", "geometric", "testzero"):
                for pset in (0, 1):
                    tasks.append(("jacobi", N, G, pattern, pset))
    # tree at finite opening angle
    for lay in ((0, 1) if ctx.tier == "quick" else (0, 1, 2, 3, 4, 5)):
        for eps in (0.0, 0.5, 5.0):
            for theta in (0.01, 0.03):
                for G in (1.0, 2.5):
                    for pattern in ("equal", "geometric"):
                        tasks.append(("theta", lay, eps, theta, G, pattern))
    # hybrid splittings
    for routine in ("mercurius", "trace"):
        for N in (2, 3, 4, 5):
            for N_active in [-1] + list(range(1, N + 1)):
                for tptype in (0, 1):
                    for pattern in ("equal", "geometric", "testzero"):
                        for pset in (0, 1):
                            members = list(range(1, N))
                            for r in range(1, len(members) + 1):
                                for enc in itertools.combinations(members, r):
                                    for soft, G in ((0.0, 1.0), (0.1, 2.5)):
                                        if routine == "mercurius":
                                            for L in (("mercury", "C4", "C5", "infinity") if ctx.tier == "thorough" else ("mercury", "C5")):
                                                tasks.append((routine, N, N_active, tptype, soft, G, pattern, pset, list(enc), L))
                                        else:
                                            npairs = len(enc) * (len(enc) - 1) // 2
                                            for mask in range(2 ** npairs):
                                                tasks.append((routine, N, N_active, tptype, soft, G, pattern, pset, list(enc), mask))
    tasks = ctx.shuffled(tasks)
    ctx.note("cases: %d" % len(tasks))
    res = pool.run_tasks(Case(rebound), tasks, timeout=120, chunk=128, progress=lambda d, n: ctx.note("cases %d/%d" % (d, n)))
    n = 0
    ntheta = [0, 0]
    for t, r in zip(tasks, res):
        if r[0] != "ok":
            ctx.violation("case-%s:%s" % (r[0], t[0]), "%s in %s: %s" % (r[0], t, str(r[1])[-600:]), {"task": list(t)})
            continue
        V, k = r[1]
        n += k
        if t[0] == "theta":
            ntheta[0] += 1
            ntheta[1] += k
        for sig, what in V:
            ctx.violation(sig, what, {"task": list(t)})
    cov = {
        "evaluations": len(tasks), "distinct_nontrivial": n,
        "rule": "JACOBI routine on N 2..6(9) x G x 3 mass patterns x 2 position sets against the Jacobi transform of the pairwise sum plus the Kepler term; routine {basic, compensated, tree(theta=0)} x N 0..5(9) x N_active {-1,0..N} x testparticle_type x gravity_ignore_terms x softening{0,0.1} x G{1,2.5} x 4 mass patterns x 2 position sets x ghost boxes {0, (1,0,0), (1,1,0), (2,2,1)} x root layouts, "
                "(TREE with N_active<N or ignored terms and COMPENSATED with ghost boxes on a sub-lattice: recorded findings); MERCURIUS mode0+mode1 for every encounter subset and switching function, TRACE interaction+Kepler for every encounter subset and every 0/1 pattern of current_Ks inside it, each with softening 0 / G 1 and softening 0.1 / G 2.5; "
                "TREE at opening angle {0.01,0.03} x softening {0,0.5,5} x G x 2 mass patterns x clustered layouts (34 particles) against the rigorous monopole bound; non-trivial = N>=2 (finite angle: at least one cell used unopened)",
        "finite_angle_cases": ntheta[0], "finite_angle_cases_with_unopened_cells": ntheta[1],
        "samples": [list(tasks[0]), list(tasks[-1])], "exhaustive": True,
    }
    return ctx.finish(LEVEL, cov, assumptions=[
        "reference = the pairwise sum of the statement evaluated in numpy.longdouble (64-bit mantissa); tolerance (16+2N+4 sqrt(N x images))*u*sum|terms|",
        "self-images excluded for every routine; TREE with N_active<N / gravity_ignore_terms and COMPENSATED with ghost boxes deviate from the statement and are recorded findings (classified by comparing with the sum the routine does compute)",
        "finite opening angle: |a_tree - a_direct| <= 12 G sum_k m_k s_k^2 sup g (Taylor remainder of the centre-of-mass expansion, derived in the check) -- rigorous, therefore loose: it catches order-one errors of unopened cells, not small ones",
        "MERCURIUS/TRACE: heliocentric, encounter members within the switching radii of each other and every other particle outside them, as the integrators guarantee",
    ])


def replay(ctx, case):
    rebound = ctx.use("rel")
    t = case["task"]
    t = [tuple(x) if isinstance(x, list) and i in (9, 10) and t[0] not in ("mercurius", "trace") else x for i, x in enumerate(t)]
    V, _ = Case(rebound)(tuple(t))
    for v in V:
        print(v)
    return 1 if V else 0
