"""C03 -- Kepler propagation is exact for every two-body orbit and time step.

Lattice e x a x GM x phase x |dt|/P x sign, each point (i) through the exported universal-variable solver and (ii)
through one reb_simulation_step of every Wisdom-Holman-type integrator on a two-body simulation, against a 40-digit
universal-variable propagation with closed-form Stumpff functions; tolerance from the measured conditioning.
"""
import ctypes
import math

import mpmath as mp

from .. import lattice, pool, rb

LEVEL = "exploration"
U = 2.0 ** -53
mp.mp.dps = 40


def Gfun(beta, X):
    """G0..G3 of Stiefel & Scheifele in closed form"""
    if beta > 0:
        s = mp.sqrt(beta)
        c, sn = mp.cos(s * X), mp.sin(s * X)
        return c, sn / s, (1 - c) / beta, (X - sn / s) / beta
    s = mp.sqrt(-beta)
    c, sn = mp.cosh(s * X), mp.sinh(s * X)
    return c, sn / s, (1 - c) / beta, (X - sn / s) / beta


def kepler_exact(mu, r0v, v0v, dt, terms=False):
    """exact two-body propagation of the relative state over dt (40 digits)"""
    mu, dt = mp.mpf(mu), mp.mpf(dt)
    x0 = [mp.mpf(v) for v in r0v]
    v0 = [mp.mpf(v) for v in v0v]
    r0 = mp.sqrt(sum(a * a for a in x0))
    v2 = sum(a * a for a in v0)
    beta = 2 * mu / r0 - v2
    eta0 = sum(a * b for a, b in zip(x0, v0))
    zeta0 = mu - beta * r0

    def F(X):
        G0, G1, G2, G3 = Gfun(beta, X)
        return r0 * X + eta0 * G2 + zeta0 * G3 - dt
    # dt/dX = r > 0: monotone. Bracket the root.
    sgn = 1 if dt > 0 else -1
    if beta > 0:
        # whole periods first
        P = 2 * mp.pi * mu / (beta * mp.sqrt(beta))
        Xp = 2 * mp.pi / mp.sqrt(beta)
        k = mp.floor(dt / P)
        lo, hi = Xp * k, Xp * (k + 1)
    else:
        lo, hi = mp.mpf(0), sgn * abs(dt) / r0 * 2 + sgn * mp.mpf(10) ** -30
        if sgn < 0:
            lo, hi = hi, lo
        # expand
        for _ in range(200):
            if F(lo) <= 0 <= F(hi):
                break
            if sgn > 0:
                hi *= 2
            else:
                lo *= 2
    flo, fhi = F(lo), F(hi)
    if flo == 0:
        X = lo
    elif fhi == 0:
        X = hi
    else:
        if not (flo < 0 < fhi):
            raise ArithmeticError("reference: root not bracketed")
        # plain bisection (the function is monotone), then Newton polish
        for _ in range(60):
            mid = (lo + hi) / 2
            if F(mid) > 0:
                hi = mid
            else:
                lo = mid
        X = (lo + hi) / 2
        for _ in range(4):
            G0, G1, G2, G3 = Gfun(beta, X)
            X = X - (r0 * X + eta0 * G2 + zeta0 * G3 - dt) / (r0 + eta0 * G1 + zeta0 * G2)
        if not (abs(F(X)) <= mp.mpf(10) ** -30 * (abs(dt) + r0 * abs(X))):
            raise ArithmeticError("reference: Newton polish did not converge")
    G0, G1, G2, G3 = Gfun(beta, X)
    r = r0 + eta0 * G1 + zeta0 * G2
    f = 1 - mu * G2 / r0
    g = dt - mu * G3
    fd = -mu * G1 / (r0 * r)
    gd = 1 - mu * G2 / r
    out = [f * a + g * b for a, b in zip(x0, v0)] + [fd * a + gd * b for a, b in zip(x0, v0)]
    if terms:
        # magnitude of the two terms whose sum is the result (forward error bound of evaluating f x + g v in double precision)
        # the Stumpff functions are evaluated by argument quartering: n = log4(|beta X^2|/0.1) doubling steps, each of which
        # doubles the relative error of the series value
        amp = max(mp.mpf(1), mp.sqrt(40 * abs(beta * X * X)))
        return out, [amp * (abs(f * a) + abs(g * b)) for a, b in zip(x0, v0)] + [amp * (abs(fd * a) + abs(gd * b)) for a, b in zip(x0, v0)]
    return out


def state(mu, a, e, f0):
    return lattice.kep2cart(mu, a, e, 0.3, 0.4, 0.5, f0)


class Case:
    def __init__(self, rebound, all_G=True):
        self.rebound = rebound
        self.all_G = all_G
        cl = rebound.clibrebound
        cl.reb_whfast_kepler_solver.restype = None
        self.cl = cl

    def solver(self, mu, s, dt):
        rebound = self.rebound
        sim = rebound.Simulation()
        P = (rebound.Particle * 2)()
        P[1].x, P[1].y, P[1].z, P[1].vx, P[1].vy, P[1].vz = s
        self.cl.reb_whfast_kepler_solver(ctypes.byref(sim), P, ctypes.c_double(mu), ctypes.c_uint(1), ctypes.c_double(dt))
        rb.drain_messages(sim)
        return [P[1].x, P[1].y, P[1].z, P[1].vx, P[1].vy, P[1].vz]

    def stepper(self, integ, mu, s, dt, m2, G=1.0):
        """one step of an integrator on star + one body; returns the relative state afterwards
        (G is a power of two, so that G * (mu / G) is mu exactly and the same reference applies)"""
        rebound = self.rebound
        sim = rebound.Simulation()
        M1 = mu / G - m2
        sim.G = G
        sim.add(m=M1, x=0.3, y=-0.1, z=0.2, vx=0.01, vy=-0.02, vz=0.005)
        p0 = sim.particles[0]
        sim.add(m=m2, x=p0.x + s[0], y=p0.y + s[1], z=p0.z + s[2], vx=p0.vx + s[3], vy=p0.vy + s[4], vz=p0.vz + s[5])
        name, coord = integ
        sim.integrator = name
        if name == "whfast":
            sim.ri_whfast.coordinates = coord
            sim.ri_whfast.safe_mode = 1
        elif name == "saba":
            sim.ri_saba.type = coord
        elif name == "trace":
            sim.ri_trace.S_peri = "none"    # "away from encounters": no pericentre switching, TRACE is then plain WH in DH coordinates
        sim.dt = dt
        # the relative state that the integrator actually starts from (adding the offsets rounds)
        a, b = sim.particles[0], sim.particles[1]
        s_in = [b.x - a.x, b.y - a.y, b.z - a.z, b.vx - a.vx, b.vy - a.vy, b.vz - a.vz]
        # the integrator is handed inertial coordinates: their size bounds what a relative coordinate can resolve
        self.inertial_mag = [max(abs(u), abs(v)) for u, v in ((a.x, b.x), (a.y, b.y), (a.z, b.z), (a.vx, b.vx), (a.vy, b.vy), (a.vz, b.vz))]
        sim.step()
        sim.synchronize()
        a, b = sim.particles[0], sim.particles[1]
        return s_in, [b.x - a.x, b.y - a.y, b.z - a.z, b.vx - a.vx, b.vy - a.vy, b.vz - a.vz], sim.t

    def inertial_conditioning(self, mu, s_in, dt, ref, D):
        """D plus the effect of one ulp of the *inertial* coordinates (the star sits at 0.3, a pericentre separation may be 1e-6:
        a relative coordinate formed from them cannot be better than that, whatever the integrator does)"""
        D = [mp.mpf(d) for d in D]
        for k in range(6):
            t = list(s_in)
            t[k] = s_in[k] + (math.nextafter(self.inertial_mag[k], math.inf) - self.inertial_mag[k])
            rr = kepler_exact(mu, t[:3], t[3:], dt)
            D = [d + abs(x - y) for d, x, y in zip(D, rr, ref)]
        return [float(d) for d in D]

    def reference(self, mu, s, dt):
        ref, terms = kepler_exact(mu, s[:3], s[3:], dt, terms=True)
        # conditioning: the effect of one ulp in each input
        # (errors of the individual inputs add up: the sum, not the maximum, is the first-order bound)
        D = [mp.mpf(0)] * 6
        for k in range(6):
            if s[k] == 0:
                continue
            t = list(s)
            t[k] = math.nextafter(s[k], math.inf)
            rr = kepler_exact(mu, t[:3], t[3:], dt)
            D = [d + abs(x - y) for d, x, y in zip(D, rr, ref)]
        rr = kepler_exact(mu, s[:3], s[3:], math.nextafter(dt, math.inf))
        D = [d + abs(x - y) for d, x, y in zip(D, rr, ref)]
        rr = kepler_exact(math.nextafter(mu, math.inf), s[:3], s[3:], dt)
        D = [d + abs(x - y) for d, x, y in zip(D, rr, ref)]
        return [float(x) for x in ref], [float(d) + 0.125 * U * float(t) for d, t in zip(D, terms)]

    def judge(self, got, ref, D, what, sig, tag, V, K=4096.0, line=None):
        """line = (state the solver started from, total time, per-step time, e, a, mu): lets a violation be recognised as the solver's
        'straight-line motion' fallback (velocity unchanged, x = x0 + v0 T) taken because the upper end dt/q of the hyperbolic
        bisection bracket overflows the Stumpff functions (sqrt(-beta) dt/q > 700)"""
        if any(v != v or abs(v) == math.inf for v in got):
            V.append((sig + ":nan", "%s yields non-finite coordinates %s [%s]" % (what, got, tag)))
            return
        sp = max(abs(v) for v in ref[:3])
        sv = max(abs(v) for v in ref[3:])
        for k in range(6):
            tol = K * D[k] + 64 * U * (sp if k < 3 else sv)
            self.worst = max(getattr(self, "worst", 0.0), abs(got[k] - ref[k]) / (D[k] + 2 * U * (sp if k < 3 else sv)))
            if not (abs(got[k] - ref[k]) <= tol):
                if line is not None and line[3] > 1 and math.sqrt(line[5] / abs(line[4])) * abs(line[2]) / (abs(line[4]) * (line[3] - 1)) > 700:
                    s0, T = line[0], line[1]
                    lin = [s0[j] + s0[j + 3] * T for j in range(3)] + list(s0[3:])
                    lp = max(abs(v) for v in lin[:3])
                    lv = max(abs(v) for v in lin[3:])
                    if all(abs(got[j] - lin[j]) <= 1e-3 * (lp if j < 3 else lv) for j in range(6)):
                        sig = "straight-line-fallback:bracket-overflow"
                        what = what + " [= straight-line motion x0 + v0 T]"
                    elif what.startswith("one step of") and T == line[2] and math.sqrt(line[5] / abs(line[4])) * abs(T / 2) / (abs(line[4]) * (line[3] - 1)) > 700:
                        # an integrator step calls the solver twice with T/2: the fallback may be taken in one of the two halves only
                        mu_ = line[5]
                        h1 = [float(v) for v in kepler_exact(mu_, s0[:3], s0[3:], T / 2)]
                        c1 = [h1[j] + h1[j + 3] * T / 2 for j in range(3)] + h1[3:]              # exact half, then the line
                        l1 = [s0[j] + s0[j + 3] * T / 2 for j in range(3)] + list(s0[3:])
                        c2 = [float(v) for v in kepler_exact(mu_, l1[:3], l1[3:], T / 2)]         # the line, then an exact half
                        for cand in (c1, c2):
                            cp = max(abs(v) for v in cand[:3])
                            cv = max(abs(v) for v in cand[3:])
                            if all(abs(got[j] - cand[j]) <= 1e-3 * (cp if j < 3 else cv) for j in range(6)):
                                sig = "straight-line-fallback:bracket-overflow"
                                what = what + " [= straight-line motion x0 + v0 T/2 in one of the two half steps, exact motion in the other]"
                                break
                V.append((sig, "%s: component %d is %r, the exact Kepler orbit gives %r (|diff| %.3g, tolerance %.3g = %g x effect of 1 ulp in the inputs) [%s]" % (what, k, got[k], ref[k], abs(got[k] - ref[k]), tol, K, tag)))
                return

    def __call__(self, task):
        e, a, mu, f0, dtP, sign, steppers = task
        a0_ = a
        rb.quiet()
        V = []
        cls = "hyperbolic" if e > 1 else "elliptic"
        s = list(state(mu, a, e, f0))
        P = 2 * math.pi * math.sqrt(abs(a) ** 3 / mu)
        dt = sign * dtP * P
        tag = "e=%r a=%r GM=%r f0=%r dt=%r (%g P)" % (e, a, mu, f0, dt, dtP)
        ref, D = self.reference(mu, s, dt)
        got = self.solver(mu, s, dt)
        big = "dt>P" if dtP >= 1 else "dt<P"
        self.judge(got, ref, D, "reb_whfast_kepler_solver", "kepler-solver:%s:%s:%s" % (cls, big, "backward" if sign < 0 else "forward"), tag, V, line=(s, dt, dt, e, a, mu))
        for integ in steppers:
            if len(integ) == 3:
                continue
            for m2 in ((0.0, 1e-3 * mu) if integ in (("whfast", "jacobi"), ("whfast", "whds"), ("saba", "1")) else (0.0,)):
                refs = {}
                for G in ((1.0, 4.0, 0.25) if self.all_G else (1.0, 4.0 if sign > 0 else 0.25)):
                    s_in, out, t = self.stepper(integ, mu, s, dt, m2, G)
                    key = tuple(s_in)
                    if s_in == s:
                        r2, D2 = ref, D
                    elif key in refs:
                        r2, D2 = refs[key]
                    else:
                        r2, D2 = refs[key] = self.reference(mu, s_in, dt)
                    gtxt = "" if G == 1.0 else ", G=%g with the star's mass GM/G" % G
                    Vt = []
                    args = ("one step of %s/%s (m2=%g%s)" % (integ[0], integ[1], m2, gtxt), "step:%s/%s:%s:%s" % (integ[0], integ[1], cls, "backward" if sign < 0 else "forward"), tag)
                    self.judge(out, r2, D2, *args, Vt, K=8192.0, line=(s_in, dt, dt, e, a, mu))
                    if Vt and not Vt[0][0].endswith(":nan"):
                        # judged again with the conditioning of the inertial coordinates the integrator was given (computed only when needed)
                        Vt = []
                        self.judge(out, r2, self.inertial_conditioning(mu, s_in, dt, r2, D2), *args, Vt, K=8192.0, line=(s_in, dt, dt, e, a, mu))
                    V.extend(Vt)
                    if not (abs(t - dt) <= 4 * U * abs(dt)):
                        V.append(("step:time:%s" % integ[0], "t=%r after one step of dt=%r [%s]" % (t, dt, tag)))
        # two steps with an output in between, in the deferred-synchronisation modes (the body must still be on the exact orbit)
        for integ in [x for x in steppers if len(x) == 3]:
            name, coord, mode = integ
            rebound = self.rebound
            sim = rebound.Simulation()
            sim.add(m=mu, x=0.3, y=-0.1, z=0.2, vx=0.01, vy=-0.02, vz=0.005)
            p0 = sim.particles[0]
            sim.add(m=0.0, x=p0.x + s[0], y=p0.y + s[1], z=p0.z + s[2], vx=p0.vx + s[3], vy=p0.vy + s[4], vz=p0.vz + s[5])
            sim.integrator = name
            ri = sim.ri_whfast if name == "whfast" else sim.ri_saba
            if name == "saba":
                ri.type = coord
            ri.safe_mode = 0
            if mode.startswith("keep"):
                ri.keep_unsynchronized = 1
            sim.dt = dt
            a, b = sim.particles[0], sim.particles[1]
            s_in = [b.x - a.x, b.y - a.y, b.z - a.z, b.vx - a.vx, b.vy - a.vy, b.vz - a.vz]
            sim.step()
            sim.synchronize()
            if mode.endswith("copy"):
                sim = sim.copy()
            sim.step()
            sim.synchronize()
            a, b = sim.particles[0], sim.particles[1]
            out = [b.x - a.x, b.y - a.y, b.z - a.z, b.vx - a.vx, b.vy - a.vy, b.vz - a.vz]
            r2, D2 = self.reference(mu, s_in, 2 * dt)
            self.judge(out, r2, D2, "step, synchronize%s, step of %s/%s in mode %s" % (", copy" if mode.endswith("copy") else "", name, coord, mode),
                       "two-steps:%s/%s/%s:%s" % (name, coord, mode, cls), tag, V, K=16384.0, line=(s_in, 2 * dt, dt, e, a0_, mu))
        return V, getattr(self, "worst", 0.0)


def run(ctx):
    rebound = ctx.use("rel")
    es = [0.0, 1e-12, 1e-4, 0.1, 0.5, 0.9, 0.99, 1 - 1e-6 * 1.0000001, 1 + 1e-6 * 1.0000001, 1.01, 1.5, 10.0, 1e3]
    As = [1e-6, 1.0, 1e6]
    MUs = [1e-3, 1.0, 1e3]
    phases = [0.0, math.pi, 1e-8, -1e-8, math.pi - 1e-8, math.pi + 1e-8, 0.5, 1.0, 2.0, 2.8, -0.7, -2.3]
    dts = [1e-8, 1e-4, 9e-3, 1.1e-2, 0.1, 0.5, 1.0, 1.5, 10.0, 1e3]
    steppers_all = [("whfast", "jacobi"), ("whfast", "democraticheliocentric"), ("whfast", "whds"), ("whfast", "barycentric"), ("saba", "1"), ("mercurius", ""), ("trace", "")]
    tasks = []
    quick = ctx.tier == "quick"
    for ei, e in enumerate(es):
        for ai, a0 in enumerate(As):
            for mi, mu in enumerate(MUs):
                if quick and (ai + mi) % 3 != 2:
                    continue        # every third point of the a x GM plane
                for pi_, f0 in enumerate(phases):
                    if e > 1:
                        fmax = math.acos(-1 / e)
                        if abs(f0) >= fmax * 0.999:
                            f0 = math.copysign(fmax * 0.97, f0) if abs(f0) < math.pi else fmax * 0.97
                    for di, dtP in enumerate(dts):
                        for sign in (1, -1):
                            a = a0 if e < 1 else -a0
                            st = []
                            # integrator steps on a sub-lattice (every phase, three step sizes incl. > P)
                            if dtP in (1e-4, 1.1e-2, 0.1, 1.5) and a0 == 1.0 and mu == 1.0:
                                st = steppers_all if (pi_ % 2 == 0 or not quick) else steppers_all[:4]
                                if pi_ % 3 == 0 and dtP in (1.1e-2, 0.1):
                                    st = st + [("whfast", "jacobi", "keep"), ("whfast", "jacobi", "unsafe+copy"), ("saba", "1", "keep"), ("saba", "1", "unsafe+copy"), ("saba", "1", "keep+copy")]
                                if (e > 1 and dtP >= 1.0) or (0.9 < e < 1.4):
                                    # hybrid integrators "away from encounters": not for near-parabolic pericentre passages or for leaving the system in one step
                                    st = [x for x in st if x[0] in ("whfast", "saba")]
                            tasks.append((e, a, mu, f0, dtP, sign, st))
    tasks = ctx.shuffled(tasks)
    ctx.note("cases: %d" % len(tasks))
    res = pool.run_tasks(Case(rebound, not quick), tasks, timeout=120, chunk=16, progress=lambda d, n: ctx.note("cases %d/%d" % (d, n)))
    nsteps = 0
    worst = 0.0
    for t, r in zip(tasks, res):
        nsteps += len(t[6])
        if r[0] != "ok":
            cls = "hyperbolic" if t[0] > 1 else "elliptic"
            ctx.violation("case-%s:%s" % (r[0], cls), "%s (no result within the alarm or crash) for %s: %s" % (r[0], t[:6], str(r[1])[-400:]), {"task": list(t)})
            continue
        V, w = r[1]
        worst = max(worst, w)
        for sig, what in V:
            ctx.violation(sig, what, {"task": list(t)})
    # near-parabolic hyperbolic orbits just past pericentre, backward steps of a fraction of |a|^(3/2): the step has to terminate
    # (each in a worker of its own with a short alarm: a solver that does not return must not hold up the rest)
    P1 = 2 * math.pi
    spec = [(1.0007875632854804, -1.0, 1.0, 2.102575105938506, 2.2714850308839303 / P1, -1, []),
            (1.0007875632854804, -1.0, 1.0, 2.102575105938506, 2.2714850308839303 / P1, 1, []),
            (1.0007875632854804, -1.0, 1.0, -2.102575105938506, 2.2714850308839303 / P1, 1, [])]
    sres = pool.run_tasks(Case(rebound, not quick), spec, timeout=20, chunk=1)
    for t, r in zip(spec, sres):
        if r[0] != "ok":
            ctx.violation("solver-%s:near-parabolic:%s" % (r[0], "backward" if t[5] < 0 else "forward"),
                          "reb_whfast_kepler_solver does not return within 20 s (%s) for e=%r a=%r GM=%r f0=%r dt=%+.17g: %s" % (r[0], t[0], t[1], t[2], t[3], t[5] * t[4] * P1, str(r[1])[-200:]), {"task": list(t)})
            continue
        for sig, what in r[1][0]:
            ctx.violation(sig, what, {"task": list(t)})
    # the neighbourhood of those cases: near-parabolic orbits on both sides of pericentre, steps of a fraction of |a|^(3/2),
    # through the solver and through one step of WHFast/jacobi and SABA1 (short alarm as above; the first Newton step overflows
    # the Stumpff functions for most of them, so the solver's non-convergent branch and its bisection decide the result)
    near = []
    for e in (1.0001, 1.0007875632854804, 1.001, 1.003):
        fmax = math.acos(-1 / e)
        for f0 in (0.5, 1.5, 2.102575105938506, 2.5, 3.0):
            f0 = min(f0, 0.97 * fmax)
            for sf in (1, -1):
                for dtP in (0.05, 0.2, 2.2714850308839303 / P1, 0.7):
                    for sign in (1, -1):
                        st = [("whfast", "jacobi"), ("saba", "1")] if (not quick or (sf * sign > 0 and dtP < 0.3)) else []
                        near.append((e, -1.0, 1.0, sf * f0, dtP, sign, st))
    seen_near = set()
    near = [t for t in near if not (t[:6] in seen_near or seen_near.add(t[:6]))]
    nres = pool.run_tasks(Case(rebound, not quick), near, timeout=20, chunk=1)
    for t, r in zip(near, nres):
        nsteps += len(t[6])
        if r[0] != "ok":
            ctx.violation("solver-%s:near-parabolic-lattice:%s" % (r[0], "backward" if t[5] < 0 else "forward"),
                          "reb_whfast_kepler_solver or a step built on it does not return within 20 s (%s) for e=%r a=%r GM=%r f0=%r dt=%+.17g: %s" % (r[0], t[0], t[1], t[2], t[3], t[5] * t[4] * P1, str(r[1])[-200:]), {"task": list(t)})
            continue
        worst = max(worst, r[1][1])
        for sig, what in r[1][0]:
            ctx.violation(sig, what, {"task": list(t)})
    # WHFast512 exists only in the AVX512 build: its part runs in a process of its own (mc/w512.py)
    from .. import w512
    n_w512 = w512.run(ctx, "C03")
    cov = {
        "whfast512_cases": n_w512,
        "observed_max_error_in_units_of_the_1ulp_input_effect": worst,
        "near_parabolic_cases": len(spec) + len(near),
        "evaluations": len(tasks) + len(spec) + len(near) + nsteps, "distinct_nontrivial": len(tasks) + len(near),
        "rule": "e in {0,1e-12,1e-4,0.1,0.5,0.9,0.99,1-1e-6,1+1e-6,1.01,1.5,10,1e3} x a{1e-6,1,1e6} x GM{1e-3,1,1e3} (quick: every third point of the a x GM plane) x 12 phases (peri/apocentre and +-1e-8 around them) x "
                "|dt|/P in {1e-8,1e-4,9e-3,1.1e-2,0.1,0.5,1,1.5,10,1e3} x sign through reb_whfast_kepler_solver; near-parabolic lattice e in {1.0001,1.00079,1.001,1.003} x f0 in +-{0.5,1.5,2.10,2.5,3.0} x |dt|/(2pi|a|^1.5) in {0.05,0.2,0.36,0.7} x sign (each under a 20 s alarm: termination is part of the verdict); one step of WHFast x 4 coordinate systems, SABA1, MERCURIUS, TRACE on a sub-lattice, each with G=1 and G in {4, 1/4} (star mass GM/G; quick: one of the two by the sign of dt)",
        "samples": [list(tasks[0][:6]), list(tasks[-1][:6])], "integrator_steps": nsteps, "exhaustive": True,
    }
    return ctx.finish(LEVEL, cov, assumptions=[
        "reference: universal-variable propagation at 40 digits with closed-form Stumpff functions; tolerance 4096x (solver) / 8192x (full step; observed maximum 325x, recorded in the evidence) the summed measured effect of a 1-ulp change in any input, plus 64 u scale",
        "massive secondaries only where the splitting is exact for two bodies (Jacobi, WHDS, SABA1); otherwise the orbiting body is massless",
        "a call that does not return within 120 s is a violation (termination)",
    ])


def replay(ctx, case):
    rebound = ctx.use("rel")
    t = case["task"]
    t[6] = [tuple(x) for x in t[6]]
    V, w = Case(rebound)(tuple(t))
    for v in V:
        print(v)
    return 1 if V else 0
