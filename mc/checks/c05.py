"""C05 -- a saved simulation restores bit-for-bit and continues bit-for-bit.

(A) single-field lattice: every user-settable scalar member (header: members before "// Internal use" of
    each reb_integrator_* struct; docs/simulationvariables.md for the simulation level) set to one
    non-default value, saved, restored and compared on the raw structure bytes.
(B) for every point of the integrator option lattice x test-particle setting x direction, every
    operation history up to a bound is a save point: save -> load -> save must reproduce the persisted
    content, the settable members must be equal, and original and restored must continue bitwise equal.
"""
import ctypes
import os
import pickle
import re
import tempfile

from .. import dwarf, lattice, pool, rb

LEVEL = "model_checking"


# ------------------------------------------------------------------------------------------------ (A)
def settable_members(incdir, docdir):
    """-> list of dotted member paths of struct reb_simulation that a user may set"""
    hdr = open(os.path.join(incdir, "rebound.h")).read()
    out = []
    for m in re.finditer(r"struct (reb_integrator_(\w+))\s*\{(.*?)\n\};", hdr, flags=re.S):
        sname, short, body = m.group(1), m.group(2), m.group(3)
        body = body.split("// Internal use")[0]
        body = re.sub(r"enum\s*\w*\s*\{[^}]*\}", "int", body, flags=re.S)
        for line in body.splitlines():
            line = line.split("//")[0].strip()
            mm = re.match(r"^(?:unsigned\s+int|int|double|uint32_t|uint64_t|enum\s+\w+)\s+(\w+)\s*;", line)
            if mm:
                out.append("ri_%s.%s" % (short, mm.group(1)))
    try:
        doc = open(os.path.join(docdir, "simulationvariables.md")).read()
        for mm in re.finditer(r"^`#!c\s+([^`]*)`", doc, flags=re.M):
            decl = mm.group(1).strip()
            if "(" in decl or "*" in decl or decl.startswith("struct"):
                continue
            names = decl.replace(",", " ").split()
            if names[0] == "enum" and len(names) == 2:
                out.append(names[1])
                continue
            # type words first, then names
            names = [n for n in names if n not in ("unsigned", "int", "double", "long", "enum", "REB_STATUS")]
            out.extend(names)
    except OSError:
        pass
    skip = {"walltime", "N", "N_var", "N_var_config", "visualization"}
    return [x for x in dict.fromkeys(out) if x not in skip]


def nondefault(kind, cur, path):
    if kind == "f8":
        import struct
        v = struct.unpack("<d", cur)[0]
        nv = 0.375 if (v == 0 or v != v or abs(v) == float("inf")) else v * 1.5 + 0.125
        return struct.pack("<d", nv)
    n = len(cur)
    v = int.from_bytes(cur, "little", signed=kind.startswith("i") or kind == "enum")
    special = {"N_active": 1, "ri_whfast.corrector": 5, "ri_janus.order": 4, "ri_whfast512.N_systems": 2, "ri_eos.n": 3,
               "rand_seed": 12345, "steps_done": 7, "collisions_log_n": 3, "ri_saba.type": 0x101, "ri_eos.phi0": 3, "ri_eos.phi1": 2,
               "ri_ias15.adaptive_mode": 1, "ri_trace.peri_mode": 0, "status": -3, "integrator": 1, "gravity": 2, "collision": 1, "boundary": 1,
               "ri_whfast.kernel": 3, "ri_whfast.coordinates": 2, "N_ghost_x": 1, "N_ghost_y": 2, "N_ghost_z": 1}
    nv = special.get(path, 0 if v == 1 else 1)
    if nv == v:
        nv = v + 1
    return int(nv).to_bytes(n, "little", signed=(nv < 0))


class FieldCase:
    def __init__(self, rebound, leaves, size):
        self.rebound = rebound
        self.leaves = leaves
        self.size = size

    def __call__(self, task):
        path, via = task
        rb.quiet()
        rebound = self.rebound
        lf = [x for x in self.leaves if x["path"] == path]
        if not lf:
            return ("skip", "no such scalar member")
        lf = lf[0]
        sim = rebound.Simulation()
        sim.add(m=1.)
        sim.add(m=1e-3, x=1., vy=1.)
        base = ctypes.addressof(sim)
        cur = ctypes.string_at(base + lf["off"], lf["size"])
        new = nondefault(lf["kind"], cur, path)
        ctypes.memmove(base + lf["off"], new, lf["size"])
        if via == "mem":
            s = rb.stream(sim)
            sim2 = rebound.Simulation(s)
        elif via == "file":
            fd, fn = tempfile.mkstemp(prefix="c05-", suffix=".bin", dir=os.environ.get("VERIF_TMP", "/var/tmp"))
            os.close(fd)
            os.unlink(fn)
            try:
                sim.save_to_file(fn)
                sim2 = rebound.Simulation(fn)
            finally:
                if os.path.exists(fn):
                    os.unlink(fn)
        else:
            sim2 = pickle.loads(pickle.dumps(sim))
        a = ctypes.string_at(base + lf["off"], lf["size"])          # value in the original *after* the save
        b = ctypes.string_at(ctypes.addressof(sim2) + lf["off"], lf["size"])
        if a != b:
            return ("diff", "%s: original holds %s after saving (set to %s), restored holds %s" % (path, a.hex(), new.hex(), b.hex()))
        return ("ok", a != cur)


# ------------------------------------------------------------------------------------------------ (B)
OPS = ["step", "step3", "sync", "add", "remove", "edit_last", "reset"]


def histories(depth, cfg=None):
    out = [[]]
    frontier = [[]]
    structural = True
    if cfg is not None:
        # variational particles must stay last / cannot be removed; with keep_unsynchronized the cached
        # coordinates are authoritative, so the particle set may not be edited between steps
        if cfg.get("x") in ("var1", "var2", "megno") or cfg.get("o", {}).get("keep_unsynchronized") or cfg.get("sys") == "SCOL":
            structural = False
    for d in range(depth):
        nxt = []
        for h in frontier:
            for op in OPS:
                if op in ("add", "remove", "edit_last") and not structural:
                    continue
                if op == "edit_last" and h and h[-1] == "edit_last":
                    continue
                if op == "remove" and h.count("add") <= h.count("remove"):
                    continue
                if op == "sync" and (not h or h[-1] == "sync"):
                    continue
                if op == "reset" and (not h or h[-1] == "reset" or not structural):
                    continue        # after steps only: the integrator's arrays exist then and vanish from the next (delta) snapshot
                nxt.append(h + [op])
        out += nxt
        frontier = nxt
    return out


def apply_op(rebound, sim, cfg, op):
    if op == "step":
        sim.step()
    elif op == "step3":
        sim.steps(3)
    elif op == "sync":
        sim.synchronize()
    elif op == "add":
        sim.synchronize()       # documented: particles may only be modified in a synchronized state
        G = sim.G
        a = (7.3 if cfg.get("sys") != "S4G" else 31.0) * (1. + 0.31 * sim.N)
        v = (G * 1.0 / a) ** 0.5
        sim.add(m=1e-5 if not cfg.get("tp") else (0.0 if cfg["tp"] == 1 else 1e-9), x=a, vy=v, z=0.01 * a)
    elif op == "edit_last":
        sim.synchronize()
        p = sim.particles[sim.N - 1]
        p.vz += 1e-3 * (abs(p.vx) + abs(p.vy))
        if cfg["integ"] == "whfast":
            sim.ri_whfast.recalculate_coordinates_this_timestep = 1
        elif cfg["integ"] == "mercurius":
            sim.ri_mercurius.recalculate_coordinates_this_timestep = 1
        elif cfg["integ"] == "janus":
            sim.ri_janus.recalculate_integer_coordinates_this_timestep = 1
    elif op == "remove":
        sim.synchronize()
        sim.remove(index=sim.N - 1, keep_sorted=not bool(sim._tree_root))
    elif op == "reset":
        # documented way to drop the integrator's temporary state; it also returns the integrator's options to their defaults,
        # which the harness sets again (both the original and the restored simulation go on from the same state)
        sim.synchronize()
        sim.reset_integrator()
        lattice.apply_options(sim, cfg["integ"], cfg.get("o", {}))
    else:
        raise ValueError(op)


PRE = ("compensated", "tree", "coll-tree", "open", "periodic", "energy", "col:direct:merge", "col:direct:hardsphere", "col:line:merge", "col:tree:merge",
       "col:tree:hardsphere", "col:linetree:merge", "col:linetree:hardsphere", "col:line:hardsphere")


def extra_setup(rebound, sim, cfg, pre):
    x = cfg.get("x")
    if not x:
        return
    if (x in PRE) != pre:
        return
    if x == "var1":
        sim.add_variation()
    elif x == "var2":
        v1 = sim.add_variation()
        v2 = sim.add_variation(order=2, first_order=v1)
    elif x == "megno":
        sim.init_megno(seed=3)
    elif x == "compensated":
        sim.gravity = "compensated"
    elif x == "tree":
        sim.configure_box(200.)
        sim.gravity = "tree"
        sim.opening_angle2 = 0.25
    elif x == "coll-direct":
        sim.collision = "direct"
        sim.collision_resolve = "merge"
        for p in sim.particles:
            p.r = 1e-4
    elif x == "coll-line":
        sim.collision = "line"
        sim.collision_resolve = "merge"
        for p in sim.particles:
            p.r = 1e-4
    elif x == "coll-tree":
        sim.configure_box(200.)
        sim.collision = "tree"
        sim.collision_resolve = "merge"
    elif x == "open":
        sim.configure_box(200.)
        sim.boundary = "open"
    elif x == "periodic":
        sim.configure_box(200.)
        sim.boundary = "periodic"
    elif x == "energy":
        sim.track_energy_offset = 1
    elif x.startswith("col:"):
        _, mode, res = x.split(":")
        sim.configure_box(40.)
        sim.collision = mode
        sim.collision_resolve = res
    else:
        raise ValueError(x)


def reattach_extra(sim, cfg):
    x = cfg.get("x")
    if x in ("coll-direct", "coll-line", "coll-tree"):
        sim.collision_resolve = "merge"
    elif x and x.startswith("col:"):
        sim.collision_resolve = x.split(":")[2]


class SavePoint:
    def __init__(self, rebound, settable, leaves):
        self.rebound = rebound
        self.settable = settable
        self.leaves = {x["path"]: x for x in leaves}
        self.names = None
        self.persisted = []

    def build(self, cfg, hist):
        sim, P = lattice.make_sim(self.rebound, cfg, pre=lambda s: extra_setup(self.rebound, s, cfg, True))
        extra_setup(self.rebound, sim, cfg, False)
        for op in hist:
            apply_op(self.rebound, sim, cfg, op)
        return sim

    def __call__(self, task):
        cfg, hist, via = task
        rb.quiet()
        rebound = self.rebound
        if self.names is None:
            self.names = rb.field_names()
            self.persisted = [d["name"] for d in rb.descriptors() if d["dtype"] in (0, 1, 2, 3, 4, 5) and d["name"] in self.leaves]
        V = []
        lab = lattice.cfg_label(cfg) + ("/" + cfg["x"] if cfg.get("x") else "")
        integ = cfg["integ"] + ("/" + cfg["x"] if cfg.get("x") else "")
        if via == "append":
            # snapshot 0 = state before the last operation, snapshot 1 (a delta) = the save point
            fd, fn = tempfile.mkstemp(prefix="c05-", suffix=".bin", dir=os.environ.get("VERIF_TMP", "/var/tmp"))
            os.close(fd)
            os.unlink(fn)
            try:
                A = self.build(cfg, hist[:-1])
                A.save_to_file(fn)
                apply_op(rebound, A, cfg, hist[-1])
                A.save_to_file(fn)
                B = rebound.Simulation(fn, 1)
            finally:
                if os.path.exists(fn):
                    os.unlink(fn)
            s1 = rb.stream(A)
        else:
            A = self.build(cfg, hist)
        if via == "append":
            pass
        elif via == "mem":
            s1 = rb.stream(A)
            B = rebound.Simulation(s1)
        elif via == "file":
            fd, fn = tempfile.mkstemp(prefix="c05-", suffix=".bin", dir=os.environ.get("VERIF_TMP", "/var/tmp"))
            os.close(fd)
            os.unlink(fn)
            try:
                A.save_to_file(fn)
                B = rebound.Simulation(fn)
            finally:
                if os.path.exists(fn):
                    os.unlink(fn)
            s1 = rb.stream(A)
        else:
            B = pickle.loads(pickle.dumps(A))
            s1 = rb.stream(A)
        lattice.reattach(B, cfg["integ"], cfg.get("o", {}))
        reattach_extra(B, cfg)
        # (1) save(load(save(s))) == save(s)
        s2 = rb.stream(B)
        f1, f2 = rb.fields_masked(s1), rb.fields_masked(s2)
        d = rb.diff_fields(f1, f2, self.names)
        if d:
            V.append(("resave:%s:%s" % (integ, ",".join(map(str, d))), "save(load(save(s))) differs from save(s) in fields %s [%s after %s via %s]" % (d, lab, hist, via)))
        # (2) user-settable members equal on the raw structure
        ba, bb = ctypes.addressof(A), ctypes.addressof(B)
        for path in self.settable:
            lf = self.leaves.get(path)
            if lf is None:
                continue
            a = ctypes.string_at(ba + lf["off"], lf["size"])
            b = ctypes.string_at(bb + lf["off"], lf["size"])
            if a != b:
                V.append(("setting-lost:%s" % path, "user-settable member %s is %s in the original and %s after restore [%s after %s]" % (path, a.hex(), b.hex(), lab, hist)))
        # (2b) every persisted scalar, read at the member's true (DWARF) offset rather than through the table
        for path in self.persisted:
            lf = self.leaves.get(path)
            if lf is None or path.startswith("walltime"):
                continue
            a = ctypes.string_at(ba + lf["off"], lf["size"])
            b = ctypes.string_at(bb + lf["off"], lf["size"])
            if a != b:
                V.append(("persisted-member-differs:%s" % path, "member %s (persisted by name) is %s in the original and %s after restore [%s after %s]" % (path, a.hex(), b.hex(), lab, hist)))
        # (3) continue both
        done = 0
        for k in (1, 1, 3):
            A.steps(k)
            B.steps(k)
            done += k
            pa, pb = rb.particles_raw(A), rb.particles_raw(B)
            if A._tree_root or B._tree_root:
                # with a tree the particle array is re-ordered by design: compare as multisets
                pa = sorted(pa[i:i + 128] for i in range(0, len(pa), 128))
                pb = sorted(pb[i:i + 128] for i in range(0, len(pb), 128))
            if pa != pb or A.t != B.t or A.dt != B.dt or A.N != B.N:
                what = "t" if A.t != B.t else ("dt" if A.dt != B.dt else ("N" if A.N != B.N else "particles"))
                V.append(("continue:%s:%s" % (integ, what), "original and restored simulation differ in %s after %d further steps [%s saved after %s via %s]" % (what, done, lab, hist, via)))
                break
        else:
            tree = bool(A._tree_root or B._tree_root)
            fa, fb = rb.fields_masked(rb.stream(A), sort_particles=tree), rb.fields_masked(rb.stream(B), sort_particles=tree)
            d = rb.diff_fields(fa, fb, self.names)
            if tree:
                # arrays indexed by particle (IAS15's predictor and summation state) follow the re-ordered particle array
                d = [x for x in d if not str(x).startswith("ri_ias15.")]
            if d:
                V.append(("continue:%s:fields:%s" % (integ, ",".join(map(str, d))), "after %d further steps original and restored agree in particles but differ in persisted fields %s [%s saved after %s via %s]" % (done, d, lab, hist, via)))
        return V, len(s1), hist


class GetSim:
    """Simulationarchive.getSimulation(t): documented to continue bit by bit (keep_unsynchronized=1 is its default for that reason)"""
    def __init__(self, rebound):
        self.rebound = rebound

    def __call__(self, task):
        cfg, k, mode = task
        rb.quiet()
        rebound = self.rebound
        lab = lattice.cfg_label(cfg) + ("/" + cfg["x"] if cfg.get("x") else "")
        fd, fn = tempfile.mkstemp(prefix="c05g-", suffix=".bin", dir=os.environ.get("VERIF_TMP", "/var/tmp"))
        os.close(fd)
        os.unlink(fn)
        V = []
        try:
            A, P = lattice.make_sim(rebound, cfg)
            if cfg.get("x") == "var1":
                v = A.add_variation()
                v.particles[1].x = 1.0
                v.particles[2].vy = 0.5
            A.steps(k)
            A.save_to_file(fn)
            A.steps(2)
            A.save_to_file(fn)
            t1 = A.t
            sa = rebound.Simulationarchive(fn)
            B = sa.getSimulation(t1, mode=mode)
            lattice.reattach(B, cfg["integ"], cfg.get("o", {}))
            if B.t != t1:
                V.append(("getsim:time:%s" % mode, "getSimulation(%r, mode=%s) returned t=%r [%s]" % (t1, mode, B.t, lab)))
                return V
            for more in (1, 2):
                A.steps(more)
                B.steps(more)
                a = A.copy()
                lattice.reattach(a, cfg["integ"], cfg.get("o", {}))
                a.synchronize()
                B.synchronize()
                if rb.particles_raw(a) != rb.particles_raw(B) or a.t != B.t:
                    d = max(abs(getattr(p, c) - getattr(q, c)) for p, q in zip(a.particles, B.particles) for c in ("x", "y", "z", "vx", "vy", "vz"))
                    V.append(("getsim:continue:%s:%s:%s" % (mode, cfg["integ"] + ("/" + cfg["x"] if cfg.get("x") else ""), "rounding" if d < 1e-12 else "large"),
                              "the simulation obtained with getSimulation(t of snapshot 1, mode=%s) does not continue bit for bit: largest coordinate difference %.3g after %d more steps [%s, archive started after %d steps]" % (mode, d, more, lab, k)))
                    break
        finally:
            if os.path.exists(fn):
                os.unlink(fn)
        return V


class Crowded:
    """a packed planetary system in which two bodies merge early: save points after the merger, long continuation (the hybrid
    integrators reject and repeat steps there; whatever decides that must be part of the restored state)"""
    def __init__(self, rebound):
        self.rebound = rebound

    def make(self, integ, o, layout):
        import random
        rng = random.Random(layout)         # a fixed list of layouts, not a sample: the same phases in every run
        rebound = self.rebound
        sim = rebound.Simulation()
        sim.add(m=1.0)
        for i in range(8):
            sim.add(m=3e-4, a=1.0 + 0.09 * i, e=0.02, f=rng.uniform(0, 6.28), omega=rng.uniform(0, 6.28), r=1e-5)
        sim.add(m=1e-5, a=4.0, f=0.0, r=0.015)
        sim.add(m=1e-5, a=4.0, f=0.01, r=0.015)
        sim.move_to_com()
        lattice.apply_options(sim, integ, o)
        sim.collision = "direct"
        sim.collision_resolve = "merge"
        sim.dt = 0.15
        return sim

    def __call__(self, task):
        integ, o, layout, via, nsave = task
        rb.quiet()
        rebound = self.rebound
        sim = self.make(integ, o, layout)
        N0 = sim.N
        sim.steps(nsave)
        if sim.N == N0:
            return [("harness:no-merger", "the two touching bodies did not merge within %d steps [%s%s layout %d]" % (nsave, integ, o, layout))]
        if via == "copy":
            c = sim.copy()
        else:
            fn = "/var/tmp/c05crowd_%d.bin" % os.getpid()
            sim.save_to_file(fn, delete_file=True)
            c = rebound.Simulation(fn)
            os.remove(fn)
        c.collision_resolve = "merge"
        if integ == "mercurius" and "L" in o:
            c.ri_mercurius.L = o["L"]
        tag = "%s%s, layout %d, saved via %s %d steps in (after the merger)" % (integ, o, layout, via, nsave)
        for k in range(15):
            sim.steps(10)
            c.steps(10)
            if sim.N != c.N or rb.bits(sim.t) != rb.bits(c.t) or rb.bits(sim.dt) != rb.bits(c.dt) or rb.pstate(sim) != rb.pstate(c):
                what = "N" if sim.N != c.N else ("t" if sim.t != c.t else ("dt" if sim.dt != c.dt else "particles"))
                return [("crowded:continue:%s:%s" % (integ, what), "original and restored simulation differ in %s within %d further steps [%s]" % (what, 10 * (k + 1), tag))]
        return []


class FinalSnapshot:
    """the snapshot an automatic archive takes when integrate(tmax) ends on a snapshot time (last step shortened to hit tmax):
    it must restore to the simulation that integrate() returns and continue like it"""
    def __init__(self, rebound, leaves):
        self.rebound, self.leaves = rebound, leaves
        self.names = None

    def __call__(self, task):
        integ, o, cadence, eft = task
        rb.quiet()
        rebound = self.rebound
        if self.names is None:
            self.names = rb.field_names()
        sim, P = lattice.make_sim(rebound, {"integ": integ, "o": o, "sys": "S3", "tp": 0, "dtsign": 1})
        dt0 = sim.dt
        fd, fn = tempfile.mkstemp(prefix="c05f-", suffix=".bin", dir=os.environ.get("VERIF_TMP", "/var/tmp"))
        os.close(fd)
        os.unlink(fn)
        tmax = 7.3 * dt0            # not a multiple of the step
        V = []
        tag = "%s%s, archive %s, integrate(7.3 dt) with exact_finish_time=%d" % (integ, o, cadence, eft)
        try:
            if cadence == "interval":
                sim.save_to_file(fn, interval=tmax / 2, delete_file=True)
            else:
                sim.save_to_file(fn, step=4, delete_file=True)
            sim.integrate(tmax, exact_finish_time=eft)
            sa = rebound.Simulationarchive(fn)
            res = sa[-1]
        finally:
            if os.path.exists(fn):
                os.unlink(fn)
        if res.t != sim.t:
            return V        # the last snapshot was not taken at the end of the run: nothing to compare
        lattice.reattach(res, integ, o)
        f1 = rb.fields_masked(rb.stream(sim))
        f2 = rb.fields_masked(rb.stream(res))
        d = [x for x in rb.diff_fields(f1, f2, self.names) if "walltime" not in str(x) and "simulationarchive" not in str(x)]
        if d:
            V.append(("final-snapshot:fields:%s:%s" % (integ, ",".join(map(str, d[:3]))), "the snapshot taken when integrate() ended differs from the returned simulation in %s [%s]" % (d[:6], tag)))
            return V
        a, b = sim.copy(), res
        lattice.reattach(a, integ, o)
        a.steps(7)
        b.steps(7)
        if rb.bits(a.t) != rb.bits(b.t) or rb.pstate(a) != rb.pstate(b):
            V.append(("final-snapshot:continue:%s" % integ, "7 further steps from the final snapshot and from the returned simulation differ [%s]" % tag))
        return V


class Spheres:
    """sixty colliding spheres in a box, every collision search x resolver: save after 20 steps, continue 200 steps (the order in
    which a tree hands pairs to the resolver is part of what a restored simulation has to reproduce)"""
    def __init__(self, rebound):
        self.rebound = rebound

    def __call__(self, task):
        import random
        collision, resolve, via = task
        rb.quiet()
        rebound = self.rebound
        rng = random.Random(12345)          # one fixed layout
        sim = rebound.Simulation()
        sim.integrator = "leapfrog"
        sim.gravity = "none"
        sim.collision = collision
        sim.collision_resolve = resolve
        sim.configure_box(40.0)
        sim.dt = 0.05
        for i in range(60):
            sim.add(m=1e-6, r=0.45, x=rng.uniform(-8, 8), y=rng.uniform(-8, 8), z=rng.uniform(-1, 1), vx=rng.uniform(-1, 1), vy=rng.uniform(-1, 1), vz=rng.uniform(-0.1, 0.1), hash=i + 1)
        sim.steps(20)
        if via == "copy":
            c = sim.copy()
        else:
            fn = "/var/tmp/c05sph_%d.bin" % os.getpid()
            sim.save_to_file(fn, delete_file=True)
            c = rebound.Simulation(fn)
            os.remove(fn)
        c.collision_resolve = resolve

        def st(s_):
            return sorted((q.hash.value, q.x, q.y, q.z, q.vx, q.vy, q.vz, q.m, q.r, q.last_collision) for q in s_.particles if q.y == q.y)
        n0 = sim.collisions_log_n
        for k in range(10):
            sim.steps(20)
            c.steps(20)
            if st(sim) != st(c):
                return [("spheres:continue:%s:%s" % (collision, resolve), "original and restored simulation differ within %d further steps [60 spheres, collision=%s, resolver %s, saved via %s after 20 steps]" % (20 * (k + 1), collision, resolve, via))]
        return []


def configs(tier, avx):
    cfgs = []
    pts = lattice.integrator_points("full", avx=avx)
    for integ, o in pts:
        sysn = "S9" if integ == "whfast512" else "S3"
        for tp in (0, 1, 2):
            if integ == "whfast512" and tp:
                continue
            for sgn in (1, -1):
                if integ == "whfast512" and sgn < 0:
                    continue
                if tier == "quick" and (tp, sgn) not in ((0, 1), (1, -1), (2, 1)):
                    continue
                cfgs.append({"integ": integ, "o": o, "sys": sysn, "tp": tp, "dtsign": sgn})
    # module variations on representatives
    for integ, o in lattice.integrator_points("rep", avx=False):
        for x in ("compensated", "tree", "coll-direct", "coll-line", "coll-tree", "open", "periodic", "energy", "var1", "var2", "megno"):
            if x in ("var1", "var2", "megno"):
                if integ not in ("ias15", "bs", "whfast"):
                    continue
                if integ == "whfast" and (x == "var2" or o.get("coordinates", "jacobi") != "jacobi" or o.get("kernel", "default") != "default"):
                    continue
                if integ == "bs" and x == "megno":
                    continue
            if x == "compensated" and integ in ("mercurius", "trace", "eos"):
                continue
            # the tree re-orders the particle array, which only order-agnostic integrators tolerate
            if x in ("tree", "coll-tree") and integ not in ("leapfrog", "ias15"):
                continue
            if x in ("coll-tree", "coll-line") and integ in ("mercurius",):
                continue
            if x == "coll-tree" and integ == "trace":
                continue
            cfgs.append({"integ": integ, "o": o, "sys": "S3", "tp": 0, "dtsign": 1, "x": x})
    # physically colliding spheres: every collision search mode x resolver
    for mode in ("direct", "line", "tree", "linetree"):
        for res in ("merge", "hardsphere"):
            cfgs.append({"integ": "leapfrog", "o": {}, "sys": "SCOL", "tp": 0, "dtsign": 1, "x": "col:%s:%s" % (mode, res)})
    return cfgs


def run(ctx):
    avxdir = ctx.lib("avx") if ctx.tier == "thorough" else None
    rebound = ctx.use("rel")
    dbg = ctx.lib("dbg")
    from .c18 import CLayouts
    L = CLayouts(os.path.join(dbg, "obj"))
    size, leaves = L.get("struct reb_simulation")
    settable = settable_members(os.path.join(dbg, "include"), "/repo/docs")
    settable = [p for p in settable if any(x["path"] == p for x in leaves)]
    ctx.note("user-settable scalar members: %d" % len(settable))
    # ---- (A)
    tasksA = [(p, via) for p in settable for via in ("mem", "file", "pickle")]
    resA = pool.run_tasks(FieldCase(rebound, leaves, size), ctx.shuffled(tasksA), timeout=60)
    nA = 0
    changedA = 0
    for (p, via), r in zip(ctx.shuffled(tasksA), resA):
        nA += 1
        if r[0] != "ok":
            ctx.violation("fieldcase-%s:%s" % (r[0], p), "single-field case %s via %s: %s" % (p, via, str(r[1])[-600:]), {"kind": "field", "path": p, "via": via})
            continue
        st, info = r[1]
        if st == "diff":
            ctx.violation("setting-lost:%s" % p, "set to a non-default value, saved and restored (%s): %s" % (via, info), {"kind": "field", "path": p, "via": via})
        elif st == "ok" and info:
            changedA += 1
    # ---- (B)
    depth = 2 if ctx.tier == "quick" else 4
    cfgs = configs(ctx.tier, avx=False)
    tasks = []
    H = histories(depth)
    for cfg in cfgs:
        for h in histories(depth, cfg):
            tasks.append((cfg, h, "mem"))
            if len(h) <= 1:
                tasks.append((cfg, h, "file"))
                tasks.append((cfg, h, "pickle"))
            if len(h) >= 1:
                tasks.append((cfg, h, "append"))
    tasks = ctx.shuffled(tasks)
    sp = SavePoint(rebound, settable, leaves)
    res = pool.run_tasks(sp, tasks, timeout=40, progress=lambda d, n: ctx.note("save points %d/%d" % (d, n)))
    states = set()
    trans = 0
    samples = []
    for (cfg, h, via), r in zip(tasks, res):
        trans += 1
        if r[0] != "ok":
            from .. import common
            if r[0] == "crash":
                frag, short = common.classify_crash(r[1])
            else:
                frag, short = r[0], str(r[1])[-800:]
            ctx.violation("savepoint-%s:%s:%s" % (r[0], cfg["integ"], frag), "%s at save point %s after %s via %s: %s" % (r[0], lattice.cfg_label(cfg), h, via, short),
                          {"kind": "savepoint", "cfg": cfg, "history": h, "via": via})
            continue
        V, n, _ = r[1]
        states.add((lattice.cfg_label(cfg) + str(cfg.get("x")), tuple(h)))
        for sig, what in V:
            ctx.violation(sig, what, {"kind": "savepoint", "cfg": cfg, "history": h, "via": via})
        if len(samples) < 4 and len(h) == depth:
            samples.append({"cfg": cfg, "history": h, "via": via, "stream_bytes": n})
    # WHFast512 exists only in the AVX512 build: its part runs in a process of its own (mc/w512.py)
    from .. import w512
    n_w512 = w512.run(ctx, "C05")
    # ---- (C) Simulationarchive.getSimulation
    gt = []
    for integ, o in lattice.integrator_points("rep"):
        for x in (None, "var1"):
            if x and integ not in ("ias15", "whfast", "leapfrog", "bs"):
                continue
            if x and integ == "whfast" and (o.get("coordinates", "jacobi") != "jacobi" or o.get("kernel", "default") != "default"):
                continue
            # bit-by-bit continuation after the synchronisation inside getSimulation is what keep_unsynchronized exists for; EOS and
            # MERCURIUS have no such option, in their deferred modes only sa[k] (no synchronisation) continues exactly (part B)
            if integ in ("eos", "mercurius") and o.get("safe_mode", 1) == 0:
                continue
            for k in (1, 3):
                for mode in ("snapshot", "close"):
                    cfg = {"integ": integ, "o": o, "sys": "S3", "tp": 0, "dtsign": 1}
                    if x:
                        cfg["x"] = x
                    gt.append((cfg, k, mode))
    gres = pool.run_tasks(GetSim(rebound), gt, timeout=120, chunk=2)
    for t, r in zip(gt, gres):
        if r[0] != "ok":
            ctx.violation("getsim-%s:%s" % (r[0], t[0]["integ"]), "%s in getSimulation case %s: %s" % (r[0], t, str(r[1])[-400:]), {"kind": "getsim", "task": list(t)})
            continue
        for sig, what in r[1]:
            ctx.violation(sig, what, {"kind": "getsim", "task": list(t)})
    # long continuations after a merger in a packed system
    crt = []
    for integ, o in [("trace", {"peri_mode": pm}) for pm in ("PARTIAL_BS", "FULL_BS", "FULL_IAS15")] + [("mercurius", {}), ("mercurius", {"safe_mode": 0}), ("ias15", {}), ("whfast", {}), ("bs", {})]:
        for layout in ((4, 5, 7) if ctx.tier == "quick" else (3, 4, 5, 6, 7, 8)):
            for via in ("copy", "file"):
                crt.append((integ, o, layout, via, 40))
    cres = pool.run_tasks(Crowded(rebound), crt, timeout=600, chunk=1)
    for t, r in zip(crt, cres):
        if r[0] != "ok":
            ctx.violation("crowded-%s:%s" % (r[0], t[0]), "%s in crowded-system case %s: %s" % (r[0], t, str(r[1])[-400:]), {"kind": "crowded", "task": list(t)})
            continue
        for sig, what in r[1]:
            ctx.violation(sig, what, {"kind": "crowded", "task": list(t)})
    spt = [(col, res_, via) for col in ("direct", "tree", "line", "linetree") for res_ in ("hardsphere", "merge") for via in ("copy", "file")]
    spres = pool.run_tasks(Spheres(rebound), spt, timeout=600, chunk=1)
    for t, r in zip(spt, spres):
        if r[0] != "ok":
            ctx.violation("spheres-%s:%s" % (r[0], t[0]), "%s in sphere case %s: %s" % (r[0], t, str(r[1])[-400:]), {"kind": "spheres", "task": list(t)})
            continue
        for sig, what in r[1]:
            ctx.violation(sig, what, {"kind": "spheres", "task": list(t)})
    # the automatic snapshot at the end of integrate()
    fst = [(integ, o, cad, eft) for integ, o in [("whfast", {}), ("whfast", {"safe_mode": 0}), ("leapfrog", {}), ("ias15", {}), ("mercurius", {}), ("saba", {"type": "10,6,4"}), ("eos", {"phi0": "lf4", "phi1": "lf", "n": 2}), ("trace", {}), ("bs", {}), ("janus", {"order": 4})]
           for cad in ("interval", "step") for eft in (1, 0)]
    fres = pool.run_tasks(FinalSnapshot(rebound, leaves), fst, timeout=120, chunk=1)
    for t, r in zip(fst, fres):
        if r[0] != "ok":
            ctx.violation("final-snapshot-%s:%s" % (r[0], t[0]), "%s in final-snapshot case %s: %s" % (r[0], t, str(r[1])[-400:]), {"kind": "final", "task": list(t)})
            continue
        for sig, what in r[1]:
            ctx.violation(sig, what, {"kind": "final", "task": list(t)})
    cov = {
        "whfast512_cases": n_w512, "crowded_system_cases": len(crt), "sphere_cases": len(spt), "final_snapshot_cases": len(fst),
        "states": len(states), "transitions": trans + nA, "traces_validated_against_impl": trans + nA,
        "samples": samples or [{"cfg": cfgs[0], "history": []}],
        "configs": len(cfgs), "histories_per_config": len(H), "max_depth": depth,
        "single_field_cases": nA, "single_field_value_survived_save": changedA, "settable_members": len(settable),
        "exhaustive": True,
        "rule": "save points = (configuration of the documented option lattice x test-particle setting x direction x module variation) x (every history over {step, steps(3), synchronize, add, remove} up to max_depth); "
                "each save point is restored via memory (all) and via file and pickle (depth<=1) and continued 1,2,5 steps; plus one case per user-settable scalar member set to a non-default value",
    }
    return ctx.finish(LEVEL, cov, assumptions=[
        "function pointers (MERCURIUS L, TRACE S_peri, collision_resolve) are re-attached by the harness after loading, as the property allows",
        "walltime fields are excluded from the comparison",
        "user-settable members are those declared before '// Internal use' in each reb_integrator_* struct and the scalar variables documented in docs/simulationvariables.md",
    ])


def replay(ctx, case):
    rebound = ctx.use("rel")
    dbg = ctx.lib("dbg")
    from .c18 import CLayouts
    L = CLayouts(os.path.join(dbg, "obj"))
    size, leaves = L.get("struct reb_simulation")
    settable = settable_members(os.path.join(dbg, "include"), "/repo/docs")
    if case.get("kind") == "spheres":
        V = Spheres(rebound)(tuple(case["task"]))
        print(V)
        return 1 if V else 0
    if case.get("kind") == "final":
        V = FinalSnapshot(rebound, leaves)(tuple(case["task"]))
        print(V)
        return 1 if V else 0
    if case.get("kind") == "crowded":
        V = Crowded(rebound)(tuple(case["task"]))
        print(V)
        return 1 if V else 0
    if case.get("kind") == "field":
        r = FieldCase(rebound, leaves, size)((case["path"], case["via"]))
        print(r)
        return 1 if r[0] == "diff" else 0
    V, n, _ = SavePoint(rebound, settable, leaves)((case["cfg"], case["history"], case["via"]))
    for v in V:
        print(v)
    return 1 if V else 0
