"""C08 -- integrate() honours its time, step-size and status contract.

Lattice: integrator representatives x dt x start time x target offsets (incl. the 1e-13 neighbourhood of a
step boundary) x direction x exact_finish_time x every composition of the interval into <=3 calls, plus
exit conditions becoming true at a chosen step boundary.  A recording heartbeat logs every step boundary.
"""
import ctypes
import itertools
import math
from fractions import Fraction

from .. import lattice, pool, rb

LEVEL = "model_checking"

FIXED = {"whfast", "whfast_unsafe", "whfast_keep", "saba", "saba_unsafe", "leapfrog", "janus", "eos", "eos_unsafe", "sei", "none", "mercurius", "mercurius_unsafe", "trace", "ias15_fixed"}
ADAPTIVE = {"ias15", "bs", "ias15_mindt"}
ROBUST_BIG_DT = {"whfast", "whfast_unsafe", "saba", "leapfrog", "janus", "ias15", "bs", "none", "ias15_fixed"}
SMALL_DT_ONLY = {"ias15_mindt"}


def make(rebound, integ):
    sim = rebound.Simulation()
    if integ == "ias15_mindt":
        # e=0.95 orbit started just before pericentre: the step-size controller asks for less than min_dt
        x, y, z, vx, vy, vz = lattice.kep2cart(1.001, 1.0, 0.95, 0.1, 0.3, 0.2, -0.6)
        sim.add(m=1.0)
        sim.add(m=1e-3, x=x, y=y, z=z, vx=vx, vy=vy, vz=vz)
        sim.move_to_com()
        sim.integrator = "ias15"
        sim.ri_ias15.min_dt = 0.02
        return sim
    G, bodies, P = lattice.system("S3")
    for b in bodies:
        sim.add(m=b[0], x=b[1], y=b[2], z=b[3], vx=b[4], vy=b[5], vz=b[6])
    if integ.endswith("_var"):
        integ = integ[:-4]
        sim.integrator = integ
        sim.add_variation()
        return sim
    base = integ.split("_")[0]
    sim.integrator = base
    if integ == "whfast_unsafe":
        sim.ri_whfast.safe_mode = 0
    elif integ == "whfast_keep":
        sim.ri_whfast.safe_mode = 0
        sim.ri_whfast.keep_unsynchronized = 1
    elif integ == "saba_unsafe":
        sim.ri_saba.safe_mode = 0
    elif integ == "eos_unsafe":
        sim.ri_eos.safe_mode = 0
    elif integ == "mercurius_unsafe":
        sim.ri_mercurius.safe_mode = 0
    elif integ == "ias15_fixed":
        sim.ri_ias15.epsilon = 0.
    if base == "sei":
        sim.ri_sei.OMEGA = 1.0
        sim.gravity = "none"
    return sim


class Recorder:
    def __init__(self, rebound, sim, stop_at=None):
        self.log = []
        self.stop_at = stop_at
        self.sim = sim
        self.rebound = rebound

        def hb(ptr):
            s = ptr.contents
            self.log.append((s.t, s.dt, s._status, s.steps_done))
            if self.stop_at is not None and len(self.log) - 1 == self.stop_at:
                rebound.clibrebound.reb_simulation_stop(ptr)
        self.cb = hb
        sim.heartbeat = hb


def frac_steps(t0, T, dt):
    return (Fraction(T) - Fraction(t0)) / Fraction(dt)


class Contract:
    def __init__(self, rebound):
        self.rebound = rebound

    def __call__(self, task):
        integ, dt, t0, offs, sign, exact = task
        rb.quiet()
        rebound = self.rebound
        V = []
        tag = "%s dt=%r t0=%r offsets=%s dir=%+d exact=%d" % (integ, dt, t0, offs, sign, exact)
        fixed = integ in FIXED

        def run(targets):
            sim = make(rebound, integ)
            sim.t = t0
            sim.dt = dt          # the user gives a positive dt; integrate() picks the direction
            rec = Recorder(rebound, sim)
            out = []
            for T in targets:
                n0 = len(rec.log)
                t_before, dt_before, steps_before = sim.t, sim.dt, sim.steps_done
                try:
                    sim.integrate(T, exact_finish_time=exact)
                    exc = None
                except Exception as e:
                    exc = "%s: %s" % (type(e).__name__, e)
                out.append((T, t_before, dt_before, steps_before, sim.t, sim.dt, sim.dt_last_done, sim.steps_done, rec.log[n0:], exc))
            return sim, out

        targets = []
        acc = t0
        for o in offs:
            acc = acc + sign * o
            targets.append(acc)
        sim, calls = run(targets)
        for (T, tb, dtb, sb, ta, dta, dtl, sa, log, exc) in calls:
            ctx = "%s call to %r from t=%r" % (tag, T, tb)
            if exc:
                V.append(("integrate-raises:%s" % integ, "integrate raises %s [%s]" % (exc, ctx)))
                continue
            direction = 1 if T > tb else (-1 if T < tb else 0)
            if direction == 0:
                if ta != tb or sa != sb or dta != dtb:
                    V.append(("noop-changes-state:%s" % integ, "target equals current time but t %r->%r, dt %r->%r, steps_done %d->%d [%s]" % (tb, ta, dtb, dta, sb, sa, ctx)))
                continue
            # (a)/(b) finishing time
            if exact:
                tol = 1e-12 * abs(T) if T != 0 else 1e-12
                if not abs(ta - T) <= tol:
                    V.append(("exact-finish-missed:%s" % integ, "exact_finish_time=1 ends at t=%r, target %r (off by %.3g) [%s]" % (ta, T, ta - T, ctx)))
            else:
                over = (ta - T) * direction
                if over < 0:
                    V.append(("ends-before-target:%s" % integ, "integration stopped at t=%r before the target %r [%s]" % (ta, T, ctx)))
                elif not over < abs(dtl) * (1 + 1e-12) and dtl != 0:
                    V.append(("overshoot-more-than-a-step:%s" % integ, "ends %.3g past the target, last step %.3g [%s]" % (over, dtl, ctx)))
            # (c) monotone time
            ts = [l[0] for l in log]
            for a, b in zip(ts, ts[1:]):
                if (b - a) * direction < 0:
                    V.append(("time-not-monotone:%s" % integ, "time moved from %r to %r while integrating in direction %+d [%s]" % (a, b, direction, ctx)))
                    break
            # (d) step size afterwards
            if fixed:
                if abs(dta) != abs(dt) or (dta > 0) != (direction > 0):
                    V.append(("dt-not-restored:%s" % integ, "dt is %r after the call, the user's step is %r in direction %+d [%s]" % (dta, dt, direction, ctx)))
                # (f) number of steps
                q = frac_steps(tb, T, dt * direction)
                near = abs(q - round(q)) < Fraction(1, 10 ** 8)
                if not near:
                    want = math.ceil(q)
                    if sa - sb != want:
                        V.append(("step-count:%s:exact%d" % (integ, exact), "%d steps taken, (T-t)/dt=%.6f implies %d [%s]" % (sa - sb, float(q), want, ctx)))
            else:
                steps = [abs(b - a) for a, b in zip(ts, ts[1:])]
                if exact and len(steps) >= 2 and steps[-1] < 0.5 * steps[-2] and abs(dta) <= 1.0000001 * steps[-1]:
                    V.append(("dt-left-shortened:%s" % integ, "adaptive integrator leaves dt=%r, the artificially shortened last step (previous steps %r) [%s]" % (dta, steps[-3:], ctx)))
                if (dta > 0) != (direction > 0):
                    V.append(("dt-sign:%s" % integ, "dt=%r after integrating in direction %+d [%s]" % (dta, direction, ctx)))
        # (e) no-op when target equals the current time (state is synchronised after integrate)
        pb = rb.particles_raw(sim)
        tb, dtb, sb = sim.t, sim.dt, sim.steps_done
        try:
            sim.integrate(sim.t, exact_finish_time=exact)
            if sim.t != tb or sim.dt != dtb or sim.steps_done != sb or rb.particles_raw(sim) != pb:
                V.append(("noop-changes-state:%s:exact%d:%s" % (integ, exact, "particles" if (sim.t == tb and sim.dt == dtb and sim.steps_done == sb) else "bookkeeping"), "integrate(t) with t the current time changed the state: t %r->%r dt %r->%r steps %d->%d particles %s [%s]" % (
                    tb, sim.t, dtb, sim.dt, sb, sim.steps_done, "changed" if rb.particles_raw(sim) != pb else "same", tag)))
        except Exception as e:
            V.append(("noop-raises:%s" % integ, "integrate(current time) raises %s [%s]" % (e, tag)))
        # (g) splitting into consecutive calls (no exact finishing) gives bitwise the same trajectory
        final = None
        if len(targets) > 1 and not exact and fixed and integ not in ("whfast_unsafe", "saba_unsafe", "eos_unsafe", "mercurius_unsafe"):
            sim1, calls1 = run([targets[-1]])
            # consecutive calls: every call continues in the same direction from where the previous one ended
            same_dir = all((c[0] - c[1]) * sign > 0 for c in calls)
            if same_dir and not any(c[9] for c in calls1):
                if sim1.t != sim.t or rb.particles_raw(sim1) != rb.particles_raw(sim) or sim1.steps_done != sim.steps_done:
                    V.append(("split-differs:%s" % integ, "integrating to %r in %d calls ends at t=%r after %d steps, in one call at t=%r after %d steps; particles %s [%s]" % (
                        targets[-1], len(targets), sim.t, sim.steps_done, sim1.t, sim1.steps_done, "differ" if rb.particles_raw(sim1) != rb.particles_raw(sim) else "equal", tag)))
        return V


# ------------------------------------------------------------------------------------------- exit conditions
class Exit:
    def __init__(self, rebound):
        self.rebound = rebound

    def setup(self, integ, kind, dt, sign):
        rebound = self.rebound
        sim = make(rebound, integ)
        sim.dt = dt
        if kind == "collision":
            # two extra small bodies on a slow collision course far from the planets
            sim.add(m=1e-12, x=30.0, y=0.0, vx=0.0, vy=0.0, r=0.05)
            sim.add(m=1e-12, x=30.4, y=0.0, vx=-0.21 * sign, vy=0.0, r=0.05)
            sim.collision = "direct"
        return sim

    def predicate(self, kind, snap, params, k):
        ps = snap
        if kind == "escape":
            return any(x * x + y * y + z * z > params ** 2 for (x, y, z, vx, vy, vz, r) in ps)
        if kind == "encounter":
            for i in range(len(ps)):
                for j in range(i):
                    d2 = sum((ps[i][a] - ps[j][a]) ** 2 for a in range(3))
                    if d2 < params ** 2:
                        return True
            return False
        if kind == "collision":
            if k == 0:
                return False
            for i in range(len(ps)):
                for j in range(i):
                    dx = [ps[i][a] - ps[j][a] for a in range(3)]
                    dv = [ps[i][a + 3] - ps[j][a + 3] for a in range(3)]
                    d2 = sum(a * a for a in dx)
                    rs = ps[i][6] + ps[j][6]
                    if rs > 0 and d2 < rs * rs and sum(a * b for a, b in zip(dx, dv)) < 0:
                        return True
            return False
        raise ValueError(kind)

    def __call__(self, task):
        integ, kind, when, sign, exact = task
        rb.quiet()
        rebound = self.rebound
        V = []
        dt = 0.1
        nsteps = 12
        # with exact finishing the target lies half a step behind the last full boundary: the last step is a shortened one
        T = sign * dt * (nsteps + (0.5 if exact else 0.0))
        tag = "%s exit=%s at boundary %s dir=%+d exact=%d" % (integ, kind, when, sign, exact)
        # exit-free trajectory, recorded at every step boundary by a heartbeat
        sim = self.setup(integ, kind, dt, sign)
        snaps = []

        def hb(ptr):
            s = ptr.contents
            n = s.N - s.N_var
            snaps.append((s.t, [(s._particles[i].x, s._particles[i].y, s._particles[i].z, s._particles[i].vx, s._particles[i].vy, s._particles[i].vz, s._particles[i].r) for i in range(n)]))
        if integ in ("whfast_unsafe",):
            return []   # boundaries of an unsynchronised run do not hold physical positions
        sim.heartbeat = hb
        sim.integrate(T, exact_finish_time=exact)
        nb = len(snaps)
        if kind == "stop":
            k = when
            if k >= nb - 1:
                return []
            sim = self.setup(integ, kind, dt, sign)
            rec = Recorder(rebound, sim, stop_at=k)
            try:
                sim.integrate(T, exact_finish_time=exact)
            except Exception as e:
                V.append(("stop-raises:%s" % integ, "user stop raises %s [%s]" % (e, tag)))
                return V
            if k < nb and (sim.t != snaps[k][0] or sim._status != 5):
                V.append(("stop-boundary:%s" % integ, "reb_simulation_stop at boundary %d (t=%r): integrate returned at t=%r with status %d [%s]" % (k, snaps[k][0], sim.t, sim._status, tag)))
            if integ in FIXED and abs(sim.dt) != dt:
                V.append(("dt-not-restored-after-exit:stop:%s" % integ, "after a user stop at boundary %d the step size is %r, the user's is %r [%s]" % (k, sim.dt, sign * dt, tag)))
            return V
        if kind == "noparticles":
            sim = self.setup(integ, kind, dt, sign)
            k = when
            if k == 13:
                k = nb - 1     # the boundary that ends the call: the particles vanish in the very step that reaches the target
            if k > nb - 1:
                return []

            def hb2(ptr):
                hb2.n += 1
                if hb2.n - 1 == k:
                    rebound.clibrebound.reb_simulation_remove_all_particles(ptr)
            hb2.n = 0
            sim.heartbeat = hb2
            try:
                sim.integrate(T, exact_finish_time=exact)
                V.append(("noparticles-not-reported:%s" % integ, "all particles removed at boundary %d but integrate returned normally at t=%r [%s]" % (k, sim.t, tag)))
            except rebound.NoParticles:
                if k < nb and sim.t != snaps[k][0]:
                    V.append(("noparticles-boundary:%s" % integ, "particles removed at boundary %d (t=%r) but integrate stopped at t=%r [%s]" % (k, snaps[k][0], sim.t, tag)))
            except Exception as e:
                V.append(("noparticles-wrong-exception:%s" % integ, "%s: %s [%s]" % (type(e).__name__, e, tag)))
            return V
        # threshold chosen so that the predicate first becomes true at boundary `when`
        vals = []
        for k, (t, ps) in enumerate(snaps):
            if kind == "escape":
                vals.append(max(math.sqrt(x * x + y * y + z * z) for (x, y, z, vx, vy, vz, r) in ps))
            elif kind == "encounter":
                vals.append(min(math.sqrt(sum((ps[i][a] - ps[j][a]) ** 2 for a in range(3))) for i in range(len(ps)) for j in range(i)))
        if kind == "escape":
            # max distance so far must first exceed the threshold at boundary `when`
            if when >= nb:
                return []
            prev = max(vals[:when]) if when > 0 else 0.0
            if vals[when] <= prev:
                # not a new maximum: choose the first boundary >= when that is
                cand = [k for k in range(when, nb) if vals[k] > max(vals[:k] or [0.0])]
                if not cand:
                    return []
                when = cand[0]
                prev = max(vals[:when]) if when > 0 else 0.0
            thr = 0.5 * (prev + vals[when]) if when > 0 else vals[0] * 0.5
            exc_t = rebound.Escape
        elif kind == "encounter":
            if when >= nb:
                return []
            prev = min(vals[:when]) if when > 0 else float("inf")
            if vals[when] >= prev:
                cand = [k for k in range(when, nb) if vals[k] < min(vals[:k] or [float("inf")])]
                if not cand:
                    return []
                when = cand[0]
                prev = min(vals[:when]) if when > 0 else float("inf")
            thr = 0.5 * (prev + vals[when]) if when > 0 else vals[0] * 2.0
            exc_t = rebound.Encounter
        else:
            thr = None
            exc_t = rebound.Collision
        first = None
        for k, (t, ps) in enumerate(snaps):
            if self.predicate(kind, ps, thr, k):
                first = k
                break
        sim = self.setup(integ, kind, dt, sign)
        if kind == "escape":
            sim.exit_max_distance = thr
        elif kind == "encounter":
            sim.exit_min_distance = thr
        else:
            sim.collision_resolve = "halt"
        raised = None
        try:
            sim.integrate(T, exact_finish_time=exact)
        except Exception as e:
            raised = e
        if first is None:
            if raised is not None:
                V.append(("exit-spurious:%s:%s" % (kind, integ), "%s raised at t=%r although the condition is never true at a step boundary [%s]" % (type(raised).__name__, sim.t, tag)))
            return V
        if raised is None:
            V.append(("exit-missed:%s:%s" % (kind, integ), "condition true at boundary %d (t=%r) but integrate returned normally at t=%r [%s]" % (first, snaps[first][0], sim.t, tag)))
        else:
            if not isinstance(raised, exc_t):
                V.append(("exit-wrong-exception:%s:%s" % (kind, integ), "expected %s, got %s: %s [%s]" % (exc_t.__name__, type(raised).__name__, raised, tag)))
            if integ in FIXED and abs(sim.dt) != dt:
                V.append(("dt-not-restored-after-exit:%s:%s" % (kind, integ), "after %s at boundary %d the step size is %r, the user's is %r [%s]" % (type(raised).__name__, first, sim.dt, sign * dt, tag)))
            if sim.t != snaps[first][0]:
                kk = [k for k, s in enumerate(snaps) if s[0] == sim.t]
                V.append(("exit-boundary:%s:%s" % (kind, integ), "condition first true at boundary %d (t=%r) but integrate stopped at t=%r (boundary %s) [%s]" % (first, snaps[first][0], sim.t, kk, tag)))
        return V


class TraceBackward:
    """TRACE integrating backwards in time through a pericentre passage / close encounter (each of its switch modes)"""
    def __init__(self, rebound):
        self.rebound = rebound

    def __call__(self, task):
        peri_mode, scenario, sign = task
        rebound = self.rebound
        rb.quiet()

        def build(integ):
            sim = rebound.Simulation()
            sim.add(m=1.0)
            if scenario == "pericentre":
                sim.add(m=1e-5, a=1.0, e=0.95, f=-2.6 * sign)
                sim.add(m=1e-5, a=5.0, e=0.05, f=1.0)
            else:
                sim.add(m=1e-4, a=1.0, e=0.01, f=0.0)
                sim.add(m=1e-4, a=1.03, e=0.01, f=-0.06 * sign)
            sim.move_to_com()
            sim.integrator = integ
            sim.dt = 0.02 * sign
            return sim
        T = 1.5 * sign
        ref = build("ias15")
        ref.integrate(T)
        sim = build("trace")
        sim.ri_trace.peri_mode = peri_mode
        x0 = [(p.x, p.y, p.z) for p in sim.particles]
        sim.integrate(T)
        V = []
        tag = "TRACE peri_mode=%s, %s scenario, integrate(%+g) with dt=%+g" % (peri_mode, scenario, T, 0.02 * sign)
        d = "backward" if sign < 0 else "forward"
        if not (abs(sim.t - T) <= 1e-9):
            V.append(("trace-encounter:%s:%s:%s:time" % (d, scenario, peri_mode), "%s ended at t=%r" % (tag, sim.t)))
            return V
        moved = max(abs(a - b) for p, q in zip(sim.particles, x0) for a, b in zip((p.x, p.y, p.z), q))
        err = max(abs(getattr(p, c) - getattr(q, c)) for p, q in zip(sim.particles, ref.particles) for c in ("x", "y", "z"))
        if moved < 1e-6:
            V.append(("trace-encounter:%s:%s:%s:no-motion" % (d, scenario, peri_mode), "%s: no particle moved" % tag))
        elif err > (1e-2 if sign > 0 else 1e-3):
            V.append(("trace-encounter:%s:%s:%s:wrong" % (d, scenario, peri_mode), "%s: positions differ from IAS15 by %.3g" % (tag, err)))
        return V


def compositions(offsets):
    out = []
    for o in offsets:
        out.append([o])
    for a, b in itertools.product(offsets, repeat=2):
        out.append([a, b])
    return out


def run(ctx):
    rebound = ctx.use("rel")
    integs = ["ias15", "ias15_mindt", "ias15_fixed", "whfast", "whfast_unsafe", "whfast_keep", "saba", "saba_unsafe", "leapfrog", "janus", "eos", "eos_unsafe", "bs", "mercurius", "mercurius_unsafe", "trace", "sei", "none"]
    dts = [0.1, 0.3, math.pi / 10, 7.0, 1.0 / 3.0, 0.06]
    t0s = [0.0, 1.7, -2.3] + ([1e6] if ctx.tier == "thorough" else [])
    tasks = []
    for integ in integs:
        for dt in dts:
            if dt == 7.0 and integ not in ROBUST_BIG_DT:
                continue
            if integ in SMALL_DT_ONLY and dt != 0.1:
                continue
            offs = [0.0, dt / 3, dt, 2 * dt, 2.5 * dt, 10 * dt, 10 * dt * (1 + 1e-13), 10 * dt * (1 - 1e-13)]
            if dt in (1.0 / 3.0, 0.06, 0.1):
                # targets that are whole multiples of the step in decimal but not in binary: the accumulated time passes them by an ulp
                offs += [5 * dt, 60 * dt]
            comps = [[o] for o in offs]
            pairs = [0.0, dt / 3, 2.5 * dt, 10 * dt] if ctx.tier == "quick" else offs
            comps += [[a, b] for a in pairs for b in pairs]
            if ctx.tier == "thorough":
                tri = [dt / 3, 2.5 * dt, 2 * dt]
                comps += [[a, b, c] for a in tri for b in tri for c in tri]
            for t0 in t0s:
                for comp in comps:
                    for sign in (1, -1):
                        for exact in (0, 1):
                            tasks.append((integ, dt, t0, comp, sign, exact))
    tasks = ctx.shuffled(tasks)
    res = pool.run_tasks(Contract(rebound), tasks, timeout=20, progress=lambda d, n: ctx.note("contract cases %d/%d" % (d, n)))
    ncalls = 0
    for t, r in zip(tasks, res):
        ncalls += len(t[3]) + 2
        if r[0] != "ok":
            ctx.violation("integrate-%s:%s" % (r[0], t[0]), "%s: integrate does not return normally for %s: %s" % (r[0], t, str(r[1])[-400:]), {"kind": "contract", "task": list(t)})
            continue
        for sig, what in r[1]:
            ctx.violation(sig, what, {"kind": "contract", "task": list(t)})
    etasks = []
    for integ in ["ias15", "whfast", "saba", "leapfrog", "janus", "eos", "bs", "mercurius", "trace", "ias15_var", "whfast_var"]:
        for kind in ("escape", "encounter", "collision", "stop", "noparticles"):
            if integ.endswith("_var") and kind in ("collision", "noparticles"):
                continue
            for when in (0, 1, 2, 5, 12, 13):
                for sign in (1, -1):
                    for exact in (0, 1):
                        if kind == "collision" and when != 0:
                            continue
                        etasks.append((integ, kind, when, sign, exact))
    etasks = ctx.shuffled(etasks)
    eres = pool.run_tasks(Exit(rebound), etasks, timeout=20)
    for t, r in zip(etasks, eres):
        if r[0] != "ok":
            ctx.violation("exit-%s:%s:%s" % (r[0], t[1], t[0]), "%s in exit-condition case %s: %s" % (r[0], t, str(r[1])[-500:]), {"kind": "exit", "task": list(t)})
            continue
        for sig, what in r[1]:
            ctx.violation(sig, what, {"kind": "exit", "task": list(t)})
    # TRACE through a pericentre passage / close encounter in both directions of time (termination is part of the contract)
    ttasks = [(pm, sc, sg) for pm in ("PARTIAL_BS", "FULL_BS", "FULL_IAS15") for sc in ("pericentre", "encounter") for sg in (1, -1)]
    tres = pool.run_tasks(TraceBackward(rebound), ttasks, timeout=30, chunk=1)
    for t, r in zip(ttasks, tres):
        if r[0] != "ok":
            ctx.violation("trace-encounter:%s:%s:%s:%s" % ("backward" if t[2] < 0 else "forward", t[1], t[0], r[0]), "%s: TRACE peri_mode=%s, %s scenario, direction %+d: %s" % (r[0], t[0], t[1], t[2], str(r[1])[-300:]), {"kind": "trace", "task": list(t)})
            continue
        for sig, what in r[1]:
            ctx.violation(sig, what, {"kind": "trace", "task": list(t)})
    # WHFast512 exists only in the AVX512 build: its part runs in a process of its own (mc/w512.py)
    from .. import w512
    n_w512 = w512.run(ctx, "C08")
    cov = {
        "whfast512_cases": n_w512,
        "states": len(tasks) + len(etasks) + len(ttasks), "transitions": ncalls + len(etasks), "traces_validated_against_impl": len(tasks) + len(etasks),
        "samples": [{"contract_case": list(tasks[0])}, {"exit_case": list(etasks[0])}],
        "contract_cases": len(tasks), "exit_cases": len(etasks), "integrators": integs,
        "exhaustive": True,
        "rule": "contract cases = integrator x dt{0.1,0.3,pi/10,7} x t0 x every composition of the offsets {0,dt/3,dt,2dt,2.5dt,10dt,10dt(1+-1e-13)} into 1..2 (quick) / 3 (thorough) consecutive calls x direction x exact_finish_time, "
                "each followed by a no-op call and (no exact finishing) compared with the single-call run; exit cases = integrator x {escape, encounter, halting collision, user stop, no particles} x first-true boundary x direction x exact",
    }
    return ctx.finish(LEVEL, cov, assumptions=[
        "step counts are only demanded when (T-t)/dt is not within 1e-8 of an integer (there the 1e-12 fuzz legitimately decides)",
        "exit predicates are evaluated by the harness on the positions a heartbeat recorded at each step boundary of the exit-free run",
        "a call that does not return within 20 s is reported as a violation (termination is part of the contract)",
    ])


def replay(ctx, case):
    rebound = ctx.use("rel")
    if case["kind"] == "exit":
        V = Exit(rebound)(tuple(case["task"]))
    else:
        t = case["task"]
        V = Contract(rebound)((t[0], t[1], t[2], t[3], t[4], t[5]))
    for v in V:
        print(v)
    return 1 if V else 0
