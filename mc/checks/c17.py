"""C17 -- copies are independent and equal; compare reports exactly the real differences.

(A) every save-point state of the C05 space (option lattice representatives x module variations x
    histories) is copied (C copy, Python copy(), pickle): the copy must compare equal (reb_simulation_diff
    and ==), evolve bitwise like its source, and every interleaving of {step/edit/free on source, step/edit
    on copy} up to a depth must leave the *other* object's serialised state untouched.
(B) single-field mutations: for every row of the exported descriptor table, one minimal change applied
    to a copy of each of several rich base states; reb_simulation_diff must report a difference iff the
    harness' own field-wise comparison of the two serialisations (pointers masked, wall-time dropped) does.
"""
import ctypes
import itertools
import pickle
from ctypes import byref, c_int

from .. import lattice, pool, rb
from . import c05

LEVEL = "model_checking"
ASAN = True

INTER_OPS = ["step_src", "step_cpy", "edit_src", "edit_cpy", "sync_src", "sync_cpy"]


def label(cfg):
    return lattice.cfg_label(cfg) + ("/" + cfg["x"] if cfg.get("x") else "") + ("/" + cfg["extra"] if cfg.get("extra") else "")


def state(sim, tree=False):
    f = rb.fields_masked(rb.stream(sim), sort_particles=tree)
    f.pop(87, None)
    return f


class CopyCase:
    def __init__(self, rebound):
        self.rebound = rebound
        self.sp = c05.SavePoint(rebound, [], [])
        self.names = None
        rebound.clibrebound.reb_simulation_diff.restype = c_int

    def edit(self, sim, cfg):
        sim.synchronize()
        p = sim.particles[1]
        p.vz += 1e-3
        for ri in ("ri_whfast", "ri_mercurius"):
            getattr(sim, ri).recalculate_coordinates_this_timestep = 1
        sim.ri_janus.recalculate_integer_coordinates_this_timestep = 1

    def __call__(self, task):
        cfg, hist, how, inter = task
        rb.quiet()
        rebound = self.rebound
        cl = rebound.clibrebound
        if self.names is None:
            self.names = rb.field_names()
        V = []
        lab = label(cfg)
        integ = cfg["integ"] + ("/" + cfg["x"] if cfg.get("x") else "")
        A = self.sp.build(cfg, hist)
        extra = cfg.get("extra")
        fn_extra = None
        if extra == "display":
            cl.reb_simulation_add_display_settings(byref(A))
        elif extra in ("cadence-interval", "cadence-step"):
            import os
            import tempfile
            fd, fn_extra = tempfile.mkstemp(prefix="c17-", suffix=".bin", dir=os.environ.get("VERIF_TMP", "/var/tmp"))
            os.close(fd)
            os.unlink(fn_extra)
            if extra == "cadence-interval":
                A.save_to_file(fn_extra, interval=0.7)
            else:
                A.save_to_file(fn_extra, step=3)
        try:
            return self.body(A, cfg, hist, how, inter, V, lab, integ)
        finally:
            if fn_extra:
                import os
                if os.path.exists(fn_extra):
                    os.unlink(fn_extra)

    def body(self, A, cfg, hist, how, inter, V, lab, integ):
        rebound = self.rebound
        cl = rebound.clibrebound
        if how == "copy":
            B = A.copy()
        elif how == "pickle":
            B = pickle.loads(pickle.dumps(A))
        else:
            raise ValueError(how)
        lattice.reattach(B, cfg["integ"], cfg.get("o", {}))
        c05.reattach_extra(B, cfg)
        tree = bool(A._tree_root)
        # equality, both directions, C and Python
        r1 = cl.reb_simulation_diff(byref(B), byref(A), c_int(2))
        r2 = cl.reb_simulation_diff(byref(A), byref(B), c_int(2))
        if r1 != 0 or r2 != 0 or not (A == B):
            fa, fb = state(A, tree), state(B, tree)
            d = rb.diff_fields(fa, fb, self.names)
            x = cfg.get("x")
            V.append(("copy-unequal:%s:%s" % (how, ("var" if x in ("var1", "var2", "megno") else "plain") if not d else ",".join(map(str, d[:3]))),
                      "a simulation compares unequal to its own %s (reb_simulation_diff=%d/%d, ==:%s); fields that really differ: %s [%s after %s]" % (how, r1, r2, A == B, d, lab, hist)))
        if not inter:
            # lock-step evolution
            done = 0
            for k in (1, 2, 3):
                A.steps(k)
                B.steps(k)
                done += k
                fa, fb = state(A, tree), state(B, tree)
                d = rb.diff_fields(fa, fb, self.names)
                if d:
                    V.append(("copy-evolves-differently:%s:%s" % (integ, ",".join(map(str, d[:3]))), "source and %s differ in %s after %d steps each [%s after %s]" % (how, d[:6], done, lab, hist)))
                    break
            return V
        # independence under an interleaving
        for j, op in enumerate(inter):
            who, other = (A, B) if op.endswith("src") else (B, A)
            before = state(other, tree)
            if op.startswith("step"):
                who.step()
            elif op.startswith("edit"):
                self.edit(who, cfg)
            elif op.startswith("sync"):
                who.synchronize()
            after = state(other, tree)
            d = rb.diff_fields(before, after, self.names)
            if d:
                V.append(("not-independent:%s:%s" % (op, ",".join(map(str, d[:3]))), "%s changed fields %s of the other object [%s after %s, %s, interleaving %s]" % (op, d[:6], lab, hist, how, inter[:j + 1])))
                break
        # the copy must survive its source
        del A
        import gc
        gc.collect()
        try:
            B.steps(2)
            state(B, tree)
        except RuntimeError as e:
            V.append(("copy-dies-with-source", "copy unusable after the source was freed: %s [%s]" % (e, lab)))
        return V


# ------------------------------------------------------------------------------------------------ (B)
BASES = [
    {"integ": "ias15", "o": {}, "sys": "S3", "tp": 0, "dtsign": 1, "x": "var2"},
    {"integ": "whfast", "o": {"safe_mode": 0, "corrector": 5}, "sys": "S3", "tp": 1, "dtsign": 1},
    {"integ": "mercurius", "o": {"safe_mode": 0}, "sys": "S3", "tp": 0, "dtsign": 1},
    {"integ": "janus", "o": {"order": 4}, "sys": "S3", "tp": 0, "dtsign": 1},
    {"integ": "whfast", "o": {"safe_mode": 1}, "sys": "S3", "tp": 0, "dtsign": 1, "x": "megno"},
    {"integ": "saba", "o": {"type": "cl4", "safe_mode": 0}, "sys": "S3", "tp": 0, "dtsign": 1},
    {"integ": "eos", "o": {"phi0": "lf4", "phi1": "lf", "n": 2, "safe_mode": 0}, "sys": "S3", "tp": 0, "dtsign": 1},
    {"integ": "bs", "o": {}, "sys": "S3", "tp": 0, "dtsign": 1},
    {"integ": "trace", "o": {}, "sys": "S3", "tp": 0, "dtsign": 1},
]


class Mutation:
    def __init__(self, rebound):
        self.rebound = rebound
        self.sp = c05.SavePoint(rebound, [], [])
        self.desc = None
        rebound.clibrebound.reb_simulation_diff.restype = c_int

    def __call__(self, task):
        bi, row, variant = task
        rb.quiet()
        rebound = self.rebound
        cl = rebound.clibrebound
        if self.desc is None:
            self.desc = rb.descriptors()
        d = self.desc[row]
        cfg = BASES[bi]
        A = self.sp.build(cfg, ["step3"])
        if d["name"] == "display_settings":
            cl.reb_simulation_add_display_settings(byref(A))
        B = A.copy()
        base = ctypes.addressof(B)
        dt = d["dtype"]
        name = d["name"]
        if name in ("N", "N_var"):
            # a length cannot be changed in isolation: shorten the real array through the API instead
            if name == "N_var" or A.N_var:
                return ("skip", name)
            B.remove(index=B.N - 1)
        elif dt in (0, 1, 2, 3, 4, 5, 7, 8, 15):   # in-struct scalars / vec3d / particle(s)
            size = {0: 8, 1: 4, 2: 4, 3: 4, 4: 8, 5: 8, 7: 24, 8: 128, 15: 512}[dt]
            off = d["offset"] + (0 if variant == 0 else size - 1 if dt not in (8, 15) else 8)
            if variant == 1 and dt == 0:
                off = d["offset"] + 6      # a high mantissa byte of a double
            b = ctypes.string_at(base + off, 1)
            ctypes.memmove(base + off, bytes([b[0] ^ 1]), 1)
        elif dt in (9, 10, 16):                  # pointer to N elements / fixed size
            ptr = ctypes.c_void_p.from_address(base + d["offset"]).value
            if not ptr:
                return ("absent", name)
            if dt == 16:
                n = 1
            else:
                n = ctypes.c_uint.from_address(base + d["offset_N"]).value
            if n == 0:
                return ("absent", name)
            es = d["element_size"]
            skip = 8 if (es == 128 or name == "var_config") else 0   # y of a particle record / order of a var_config (byte 0 is the sim pointer)
            if variant == 0:
                off = skip                         # first element
            else:
                off = (n - 1) * es + skip          # last element
            b = ctypes.string_at(ptr + off, 1)
            ctypes.memmove(ptr + off, bytes([b[0] ^ 1]), 1)
        elif dt == 11:                           # dp7
            n = ctypes.c_uint.from_address(base + d["offset_N"]).value
            p0 = ctypes.c_void_p.from_address(base + d["offset"] + (0 if variant == 0 else 6 * 8)).value
            if not p0 or n == 0:
                return ("absent", name)
            b = ctypes.string_at(p0, 1)
            ctypes.memmove(p0, bytes([b[0] ^ 1]), 1)
        else:
            return ("skip", name)
        sa, sb = rb.stream(A), rb.stream(B)
        fa, fb = rb.fields_masked(sa, drop_walltime=False), rb.fields_masked(sb, drop_walltime=False)
        fa.pop(87, None)
        fb.pop(87, None)
        names = {x["type"]: x["name"] for x in self.desc}
        differing = rb.diff_fields(fa, fb, names)
        real = [x for x in differing if not str(x).startswith("walltime")]
        got = cl.reb_simulation_diff(byref(A), byref(B), c_int(2))
        got_r = cl.reb_simulation_diff(byref(B), byref(A), c_int(2))
        eq = (A == B)
        if not differing:
            return ("normalised-away", name)
        if real and got != got_r:
            return ("viol", ("difference-asymmetric:%s" % name, "after mutating %s of a copy reb_simulation_diff(a,b)=%d but reb_simulation_diff(b,a)=%d [base %s]" % (name, got, got_r, label(cfg))))
        if real and (got != 1 or eq):
            return ("viol", ("difference-not-reported:%s" % name, "mutating %s (variant %d) of a copy changes persisted fields %s but reb_simulation_diff returns %d and == is %s [base %s]" % (name, variant, real[:4], got, eq, label(cfg))))
        if not real and (got != 0 or not eq):
            return ("viol", ("walltime-reported:%s" % name, "only wall-clock fields %s differ but reb_simulation_diff returns %d [base %s]" % (differing, got, label(cfg))))
        return ("ok", name)


class OneSided:
    """fields that exist in one of the two simulations only (arrays freed by reset_integrator, display settings, variational
    configuration): every comparison function must report a difference whatever the order of its arguments"""
    def __init__(self, rebound):
        self.rebound = rebound
        self.sp = c05.SavePoint(rebound, [], [])
        rebound.clibrebound.reb_simulation_diff.restype = c_int

    def __call__(self, task):
        bi, kind = task
        rb.quiet()
        rebound = self.rebound
        cl = rebound.clibrebound
        cfg = BASES[bi]
        A = self.sp.build(cfg, ["step3"])
        B = A.copy()
        if kind == "reset_integrator":
            B.synchronize()
            A.synchronize()
            B2 = A.copy()
            cl.reb_simulation_reset_integrator(byref(B2))
            lattice.apply_options(B2, cfg["integ"], cfg.get("o", {}))
            B = B2
        elif kind == "display":
            cl.reb_simulation_add_display_settings(byref(B))
        elif kind == "variation":
            if A.N_var or cfg["integ"] in ("janus", "mercurius", "trace", "saba", "eos"):
                return ("skip", kind)
            B.add_variation()
        sa, sb = rb.stream(A), rb.stream(B)
        fa, fb = rb.fields_masked(sa), rb.fields_masked(sb)
        fa.pop(87, None)
        fb.pop(87, None)
        onesided = sorted(set(fa) ^ set(fb))
        if not onesided and fa == fb:
            return ("same", kind)
        out = []
        for opt in (2,):
            r1 = cl.reb_simulation_diff(byref(A), byref(B), c_int(opt))
            r2 = cl.reb_simulation_diff(byref(B), byref(A), c_int(opt))
            if r1 != 1 or r2 != 1 or (A == B) or (B == A) or not (A != B) or not (B != A):
                out.append(("difference-one-sided:%s" % kind, "the two simulations differ (fields present on one side only: %s) but reb_simulation_diff gives %d / %d for the two argument orders, a==b is %s, b==a is %s [base %s]" % (
                    onesided[:6], r1, r2, A == B, B == A, label(cfg))))
        return ("viol", out) if out else ("ok", kind)


def run(ctx):
    rebound = ctx.use("asan")
    # ---- (A)
    reps = lattice.integrator_points("rep", avx=False)
    cfgs = []
    for integ, o in reps:
        for tp in ((0, 1) if ctx.tier == "quick" else (0, 1, 2)):
            cfgs.append({"integ": integ, "o": o, "sys": "S3", "tp": tp, "dtsign": 1})
    # IAS15 with a tree is the recorded C05 finding (history-dependent tree => different re-ordering); not repeated here
    cfgs += [c for c in c05.configs("quick", False) if c.get("x") and not (c["integ"] == "ias15" and c["x"] in ("tree", "coll-tree"))]
    # states that only some users ever have: display settings (a fixed-size pointer field), an archive cadence
    for integ, o in (("ias15", {}), ("whfast", {"safe_mode": 0}), ("mercurius", {})):
        for extra in ("display", "cadence-interval", "cadence-step"):
            cfgs.append({"integ": integ, "o": o, "sys": "S3", "tp": 0, "dtsign": 1, "extra": extra})
    depth = 2
    inter_depth = 2 if ctx.tier == "quick" else 3
    tasks = []
    for cfg in cfgs:
        for h in c05.histories(depth, cfg):
            if "edit_last" in h:
                continue
            if cfg.get("x") in ("tree", "coll-tree") and "remove" in h:
                continue    # a lazily removed particle is flagged with y=NaN until the next tree update; NaN != NaN
            for how in ("copy", "pickle"):
                tasks.append((cfg, h, how, None))
        # interleavings from two representative save points
        for h in ([], ["step"]):
            for inter in itertools.product(INTER_OPS, repeat=inter_depth):
                if cfg.get("x") in ("var1", "var2", "megno") and any(o.startswith("edit") for o in inter):
                    pass
                tasks.append((cfg, h, "copy", list(inter)))
    tasks = ctx.shuffled(tasks)
    res = pool.run_tasks(CopyCase(rebound), tasks, timeout=60, progress=lambda d, n: ctx.note("copy cases %d/%d" % (d, n)))
    from .. import common
    states = set()
    for t, r in zip(tasks, res):
        cfg, h, how, inter = t
        case = {"kind": "copy", "cfg": cfg, "history": h, "how": how, "inter": inter}
        if r[0] != "ok":
            if r[0] == "crash":
                frag, short = common.classify_crash(r[1])
            else:
                frag, short = r[0], str(r[1])[-600:]
            ctx.violation("copy-%s:%s:%s" % (r[0], cfg["integ"], frag), "%s in copy case %s after %s (%s, %s): %s" % (r[0], label(cfg), h, how, inter, short), case)
            continue
        states.add((label(cfg), tuple(h)))
        for sig, what in r[1]:
            ctx.violation(sig, what, case)
    # ---- (B)
    nrows = len(rb.descriptors())
    mt = [(bi, row, v) for bi in range(len(BASES)) for row in range(nrows) for v in (0, 1)]
    mt = ctx.shuffled(mt)
    mres = pool.run_tasks(Mutation(rebound), mt, timeout=60)
    reached = {}
    counts = {}
    for t, r in zip(mt, mres):
        if r[0] != "ok":
            ctx.violation("mutation-%s" % r[0], "%s in mutation case %s: %s" % (r[0], t, str(r[1])[-500:]), {"kind": "mut", "task": list(t)})
            continue
        st, info = r[1]
        counts[st] = counts.get(st, 0) + 1
        if st == "viol":
            ctx.violation(info[0], info[1], {"kind": "mut", "task": list(t)})
            reached[t[1]] = True
        elif st == "ok":
            reached[t[1]] = True
    ot = [(bi, kind) for bi in range(len(BASES)) for kind in ("reset_integrator", "display", "variation")]
    ores = pool.run_tasks(OneSided(rebound), ot, timeout=60, chunk=1)
    for t, r in zip(ot, ores):
        if r[0] != "ok":
            ctx.violation("onesided-%s" % r[0], "%s in one-sided case %s: %s" % (r[0], t, str(r[1])[-400:]), {"kind": "onesided", "task": list(t)})
            continue
        st, info = r[1]
        counts["onesided-" + st] = counts.get("onesided-" + st, 0) + 1
        if st == "viol":
            for sig, what in info:
                ctx.violation(sig, what, {"kind": "onesided", "task": list(t)})
    desc = rb.descriptors()
    never = [desc[i]["name"] for i in range(nrows) if i not in reached and desc[i]["dtype"] not in (12, 13)]
    cov = {
        "states": len(states), "transitions": len(tasks) + len(mt), "traces_validated_against_impl": len(tasks) + len(mt),
        "samples": [{"cfg": tasks[0][0], "history": tasks[0][1], "how": tasks[0][2], "interleaving": tasks[0][3]}],
        "copy_cases": len(tasks), "mutation_cases": len(mt), "mutation_outcomes": counts,
        "descriptor_rows": nrows, "rows_with_an_effective_mutation": len(reached), "rows_never_reached": never,
        "interleaving_depth": inter_depth, "exhaustive": True,
        "rule": "copy cases = configurations (option-lattice representatives x test-particle setting, module variations) x histories up to depth 2 x {copy, pickle}; interleavings = all sequences over "
                "{step,edit,sync} x {source,copy} of the stated depth from two save points; mutations = every descriptor row x 2 byte positions x 9 base states",
    }
    return ctx.finish(LEVEL, cov, assumptions=[
        "'a persisted quantity differs' is decided by the harness' own parser of the two serialisations with pointer members masked",
        "mutations that the serialiser normalises away (e.g. gravity_ignore_terms is recomputed by reb_integrator_init) are not counted as differences",
    ])


def replay(ctx, case):
    rebound = ctx.use("asan")
    if case.get("kind") == "mut":
        r = Mutation(rebound)(tuple(case["task"]))
        print(r)
        return 1 if r[0] == "viol" else 0
    V = CopyCase(rebound)((case["cfg"], case["history"], case["how"], case["inter"]))
    for v in V:
        print(v)
    return 1 if V else 0
