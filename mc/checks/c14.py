"""C14 -- particle bookkeeping under any add / remove / hash history.

Explicit-state BFS over operation histories on the real simulation object (asan build), against a
reference list model; C API and Python container front ends.
"""
import ctypes
from ctypes import byref, c_int, c_uint32, POINTER

from .. import histmc, rb

ASAN = True
LEVEL = "model_checking"

NAMES = ["", "a", "b", "zz"]   # "" = zero hash, "zz" = never assigned


class Model:
    def __init__(self, rebound):
        self.rebound = rebound
        self.cl = rebound.clibrebound
        self.cl.reb_simulation_remove_particle.restype = c_int
        self.cl.reb_simulation_remove_particle_by_hash.restype = c_int
        self.cl.reb_simulation_particle_by_hash.restype = POINTER(rebound.Particle)
        self.cl.reb_hash.restype = c_uint32
        self.H = {"": 0}
        for n in NAMES[1:]:
            hc = self.cl.reb_hash(n.encode())
            hp = rebound.hash(n).value
            assert hc == hp, (n, hc, hp)
            self.H[n] = hc

    # ------------------------------------------------------------------ construction
    def init(self, cfg):
        rb.quiet()
        sim = self.rebound.Simulation()
        sim.integrator = cfg["integrator"]
        sim.dt = 1e-3
        if cfg["tree"]:
            sim.configure_box(100.)
            if cfg.get("hybrid_tree"):
                sim.collision = "tree"          # a hybrid integrator (forces order-preserving removal) together with a tree
            else:
                sim.gravity = "tree"
                sim.integrator = "leapfrog"
        ref = {"lst": [], "pending": [], "N_active": -1, "nuid": 0, "steps": 0}
        for k in range(cfg.get("prefill", 0) + cfg.get("start", 0)):     # "start": a few particles to begin with, full alphabet
            self._add(cfg, sim, ref, 1000 + k, front="c")
        return sim, ref

    def free(self, sim):
        del sim

    def _newparticle(self, ref):
        uid = ref["nuid"]
        ref["nuid"] += 1
        p = self.rebound.Particle()
        if uid == 0:
            p.m = 1.
        else:
            a = 1. + 0.37 * uid
            p.m = 1e-6
            p.x = a
            p.vy = a ** -0.5
        p.r = (uid + 1) * 2. ** -20
        return uid, p

    def _add(self, cfg, sim, ref, hv, front):
        uid, p = self._newparticle(ref)
        if front == "py" and hv < 1000:
            name = [n for n in NAMES if self.H[n] == hv][0]
            kw = dict(m=p.m, x=p.x, vy=p.vy, r=p.r)
            if name:
                kw["hash"] = name
            try:
                sim.add(**kw)
            except RuntimeError:
                pass    # only the resulting particle list is judged
        else:
            p.hash = c_uint32(hv)
            self.cl.reb_simulation_add(byref(sim), p)
            rb.drain_messages(sim)
        ref["lst"].append([uid, hv])

    # ------------------------------------------------------------------ observation
    def observe(self, sim):
        n = sim.N
        out = []
        for i in range(n):
            p = sim._particles[i]
            uid = int(round(p.r * 2. ** 20)) - 1
            out.append([uid, p._hash, p.y != p.y])
        return out

    def dcrit(self, sim):
        """({uid: dcrit}, {index: dcrit}) when MERCURIUS has computed its switching radii, else None"""
        if sim.integrator != "mercurius":
            return None
        na = sim.ri_mercurius._N_allocated_dcrit
        if not na or not sim.ri_mercurius._dcrit:
            return None
        byuid, byidx = {}, {}
        for i in range(min(sim.N, na)):
            p = sim._particles[i]
            uid = int(round(p.r * 2. ** 20)) - 1
            byuid[uid] = sim.ri_mercurius._dcrit[i]
            byidx[i] = sim.ri_mercurius._dcrit[i]
        return byuid, byidx

    def lookup_table(self, sim):
        n = sim.N_lookup
        t = []
        if sim._particle_lookup_table:
            for i in range(min(n, sim.N_allocated_lookup)):
                e = sim._particle_lookup_table[i]
                t.append((e.hash, e.index))
        return (n, tuple(t))

    def digest(self, cfg, sim, ref):
        obs = self.observe(sim)
        hs = [(h, fl) for _, h, fl in obs]
        if cfg["tree"]:
            hs = sorted(hs)
        # prefill hashes are all distinct and never addressed: abstract them to their count
        hs = tuple(x if x[0] < 1000 or x[0] in self.H.values() else (1000, x[1]) for x in hs)
        lt = self.lookup_table(sim)
        lt = (lt[0], tuple((h if h < 1000 or h in self.H.values() else 1000, 0 if h >= 1000 and h not in self.H.values() else i) for h, i in lt[1]))
        alloc = (sim.N_allocated, sim.N_allocated_lookup, sim.ri_mercurius._N_allocated_dcrit, sim.ri_mercurius._N_allocated,
                 sim.ri_ias15._N_allocated, sim.ri_trace._N_allocated, min(sim.steps_done, 1), bool(sim._tree_root))
        return rb.hexd(hs, sim.N_active, lt, alloc, ref["N_active"])

    # ------------------------------------------------------------------ alphabet
    def ops(self, cfg, sim, ref):
        n = sim.N
        o = []
        pre = cfg.get("prefill", 0)
        for nm in (NAMES[:3] if not pre else NAMES[:2]):
            o.append(["add", nm])
        idx = sorted(set([-1, 0, 1, n - 1, n, n + 1]))
        for i in idx:
            for ks in (0, 1):
                o.append(["remove", i, ks])
        for nm in (NAMES if not pre else ["", "a", "zz"]):
            for ks in ((0, 1) if not pre else (1,)):
                o.append(["remove_hash", nm, ks])
        if n > 0:
            for i in sorted(set([0, n - 1])):
                for nm in ("a", ""):
                    o.append(["set_hash", i, nm])
        for nm in (NAMES if not pre else ["a", "zz"]):
            o.append(["lookup", nm])
        o.append(["remove_all"])
        if not pre:
            for v in (-1, 1, 2):
                if v <= n:
                    o.append(["set_N_active", v])
        if cfg["tree"]:
            o.append(["update_tree"])
        if (not cfg["tree"] or cfg.get("hybrid_tree")) and not pre:
            lst = ref["lst"]
            if len(lst) >= 2 and lst[0][0] == 0 and ref["steps"] < 2:
                o.append(["step"])
        return o

    # ------------------------------------------------------------------ transition + oracle
    def apply(self, cfg, sim, ref, op):
        V = []
        front = cfg["front"]
        cl = self.cl
        kind = op[0]
        lst = ref["lst"]
        tree = cfg["tree"]
        forced = cfg["integrator"] in ("mercurius", "trace") and (not tree or cfg.get("hybrid_tree"))
        tag = "%s/%s%s" % (front, ("tree+" + cfg["integrator"] if cfg.get("hybrid_tree") else "tree") if tree else cfg["integrator"], "/prefill" if cfg.get("prefill") else ("/start%d" % cfg["start"] if cfg.get("start") else ""))

        def fail_expected(call, why):
            """call() must report failure and leave the simulation unchanged"""
            before_list = self.observe(sim)
            before = rb.stream(sim)
            nact = sim.N_active
            ok = call()
            after = rb.stream(sim)
            if ok:
                V.append(("%s:%s:reports-success" % (kind, why), "%s %s: invalid request (%s) reported success [%s]" % (kind, op[1:], why, tag)))
            if self.observe(sim) != before_list or sim.N_active != nact:
                V.append(("%s:%s:particles-changed" % (kind, why), "%s %s: invalid request (%s) changed the particle list: %s -> %s [%s]" % (kind, op[1:], why, before_list, self.observe(sim), tag)))
            elif after != before:
                names = rb.field_names()
                d = rb.diff_fields(rb.fields_masked(before, False), rb.fields_masked(after, False), names)
                if cfg["integrator"] == "mercurius" or cfg["integrator"] == "trace":
                    why2 = why + ":" + cfg["integrator"]
                else:
                    why2 = why
                V.append(("%s:%s:state-changed:%s" % (kind, why2, ",".join(d)), "%s %s: invalid request (%s) changed persisted fields %s [%s]" % (kind, op[1:], why, d, tag)))
            # resync model with reality so exploration continues from the real state
            self._resync(sim, ref)

        def do_remove_index(i, ks):
            if front == "py":
                try:
                    sim.remove(index=i, keep_sorted=bool(ks))
                    return True
                except RuntimeError:
                    return False
            r = cl.reb_simulation_remove_particle(byref(sim), c_int(i), c_int(ks))
            rb.drain_messages(sim)
            return bool(r)

        def do_remove_hash(nm, ks):
            if front == "py":
                try:
                    sim.remove(hash=(nm if nm else 0), keep_sorted=bool(ks))
                    return True
                except RuntimeError:
                    return False
            r = cl.reb_simulation_remove_particle_by_hash(byref(sim), c_uint32(self.H[nm]), c_int(ks))
            rb.drain_messages(sim)
            return bool(r)

        if kind == "add":
            self._add(cfg, sim, ref, self.H[op[1]], front)
        elif kind in ("remove", "remove_hash"):
            n = sim.N
            ks = op[2]
            eff_ks = 1 if forced else ks
            if kind == "remove":
                i = op[1]
                valid = 0 <= i < n
                cands = [i] if valid else []
                call = lambda: do_remove_index(i, ks)
                why = "index-out-of-range"
            else:
                hv = self.H[op[1]]
                obs = self.observe(sim)
                cands = [j for j, (u, h, fl) in enumerate(obs) if h == hv]
                valid = bool(cands)
                call = lambda: do_remove_hash(op[1], ks)
                why = "unknown-hash"
            if not valid:
                fail_expected(call, why + ("(N=%d)" % min(n, 2) if kind == "remove" else ""))
            elif sim.N_var:
                fail_expected(call, "N_var")
            elif n == 1 and tree:
                call()          # not specified: either outcome accepted
                self._resync(sim, ref)
            elif tree and eff_ks:
                fail_expected(call, "keep_sorted-with-tree")
            else:
                before = self.observe(sim)
                nact = sim.N_active
                dcrit_before = self.dcrit(sim)
                ok = call()
                after = self.observe(sim)
                if ok and dcrit_before is not None and not tree:
                    # the per-particle switching radii of MERCURIUS must follow their particles
                    dcrit_after = self.dcrit(sim)
                    for j, (u, h, fl) in enumerate(after):
                        if u in dcrit_before[0] and dcrit_after is not None and j in dcrit_after[1] and dcrit_after[1][j] != dcrit_before[0][u]:
                            V.append(("%s:mercurius-dcrit" % kind, "%s %s under MERCURIUS after a step: particle uid %d now at index %d has dcrit %r, its own value was %r [%s]" % (
                                kind, op[1:], u, j, dcrit_after[1][j], dcrit_before[0][u], tag)))
                            break
                if not ok:
                    V.append(("%s:valid-request-failed" % kind, "%s %s failed although the request is valid; list %s [%s]" % (kind, op[1:], before, tag)))
                    self._resync(sim, ref)
                else:
                    okay = False
                    for j in cands:
                        if tree:
                            exp = [list(x) for x in before]
                            exp[j][2] = True
                            if sorted(after) == sorted(exp):
                                okay = True
                        elif eff_ks or n == 1:
                            exp = before[:j] + before[j + 1:]
                            if after == exp:
                                okay = True
                                if n > 1 and nact != -1:
                                    expn = nact - 1 if j < nact else nact
                                    if sim.N_active != expn:
                                        V.append(("%s:N_active" % kind, "%s %s keep_sorted: N_active %d -> %d, expected %d [%s]" % (kind, op[1:], nact, sim.N_active, expn, tag)))
                        else:
                            exp = list(before)
                            exp[j] = exp[-1]
                            exp = exp[:-1]
                            if sorted(after) == sorted(exp):
                                okay = True
                    if not okay:
                        V.append(("%s:wrong-result" % kind, "%s %s: particle list %s -> %s [%s]" % (kind, op[1:], before, after, tag)))
                    self._resync(sim, ref)
        elif kind == "set_hash":
            i, nm = op[1], op[2]
            if front == "py":
                sim.particles[i].hash = (nm if nm else 0)
            else:
                sim._particles[i]._hash = self.H[nm]
            self._resync(sim, ref)
        elif kind == "lookup":
            hv = self.H[op[1]]
            obs = self.observe(sim)
            live = [j for j, (u, h, fl) in enumerate(obs) if h == hv and not fl]
            flagged = [j for j, (u, h, fl) in enumerate(obs) if h == hv and fl]
            if front == "py":
                try:
                    p = sim.particles[op[1]] if op[1] else sim.particles[c_uint32(0)]
                    found = True
                    fh = p._hash
                    addr = ctypes.addressof(p)
                except self.rebound.ParticleNotFound:
                    found = False
            else:
                ptr = cl.reb_simulation_particle_by_hash(byref(sim), c_uint32(hv))
                rb.drain_messages(sim)
                found = bool(ptr)
                if found:
                    fh = ptr.contents._hash
                    addr = ctypes.addressof(ptr.contents)
            if found:
                base = ctypes.addressof(sim._particles.contents) if sim._particles else 0
                k, rem = divmod(addr - base, rb.PART_SIZE)
                if not (base and rem == 0 and 0 <= k < sim.N):
                    V.append(("lookup:outside-array", "lookup %r returned a pointer outside the live particle array (slot %s of %d) [%s]" % (op[1], k, sim.N, tag)))
                elif fh != hv:
                    V.append(("lookup:wrong-hash", "lookup %r returned a particle with hash %d [%s]" % (op[1], fh, tag)))
                if not live and not flagged:
                    V.append(("lookup:found-nonexistent", "lookup %r found a particle although none has that hash: %s [%s]" % (op[1], obs, tag)))
            else:
                if live:
                    V.append(("lookup:not-found", "lookup %r found nothing although particle(s) %s carry it: %s; table %s [%s]" % (op[1], live, obs, self.lookup_table(sim), tag)))
        elif kind == "remove_all":
            if front == "py":
                del sim.particles
            else:
                cl.reb_simulation_remove_all_particles(byref(sim))
            if sim.N != 0:
                V.append(("remove_all:N", "remove_all left N=%d [%s]" % (sim.N, tag)))
            if sim.N_active != -1:
                V.append(("remove_all:N_active", "remove_all left N_active=%d [%s]" % (sim.N_active, tag)))
            self._resync(sim, ref)
        elif kind == "set_N_active":
            sim.N_active = op[1]
            ref["N_active"] = op[1]
        elif kind == "update_tree":
            before = self.observe(sim)
            cl.reb_simulation_update_tree(byref(sim))
            rb.drain_messages(sim)
            after = self.observe(sim)
            exp = [x for x in before if not x[2]]
            if sorted(after) != sorted(exp):
                V.append(("update_tree:wrong-result", "update_tree: %s -> %s, expected the unflagged ones [%s]" % (before, after, tag)))
            self._resync(sim, ref)
        elif kind == "step":
            before = self.observe(sim)
            nact = sim.N_active
            sim.step()
            ref["steps"] += 1
            if self.observe(sim) != before or sim.N_active != nact:
                V.append(("step:list-changed", "a step without collisions changed the particle list %s -> %s [%s]" % (before, self.observe(sim), tag)))
        else:
            raise ValueError(op)
        # global invariants after every operation
        obs = self.observe(sim)
        if kind in ("add", "set_hash", "set_N_active", "lookup", "step"):
            want = [[u, h] for u, h in ref["lst"]]
            got = [[u, h] for u, h, fl in obs]
            if (sorted(got) != sorted(want)) if tree else (got != want):
                V.append(("%s:list-mismatch" % kind, "%s %s: real list %s differs from model %s [%s]" % (kind, op[1:], got, want, tag)))
                self._resync(sim, ref)
        if front == "py":
            n = sim.N
            base = ctypes.addressof(sim._particles.contents) if (n and sim._particles) else 0
            for k in (-n - 2, -n - 1, -n, -1, 0, n - 1, n, n + 1):
                try:
                    q = sim.particles[k]
                    got = (ctypes.addressof(q) - base) // rb.PART_SIZE
                except Exception:
                    got = None
                want = (k % n) if (n and -n <= k < n) else None
                if got != want:
                    V.append(("py-index:%s" % ("out-of-range-accepted" if want is None else "wrong-slot"), "sim.particles[%d] with N=%d gives slot %s, expected %s after %s [%s]" % (k, n, got, "an exception" if want is None else want, op, tag)))
                    break
        if front == "py" and sim.N <= 6:
            # slices of the container are Python slices of the particle list
            hs = [q.hash.value for q in (sim.particles[k] for k in range(sim.N))]
            for sl in (slice(None, -1), slice(1, -1), slice(None, None, -1), slice(-2, None), slice(-100, 2), slice(1, None), slice(None, None, 2), slice(5, 1, -2), slice(0, 100)):
                try:
                    got = [q.hash.value for q in sim.particles[sl]]
                except Exception as e:     # noqa
                    got = "%s" % type(e).__name__
                if got != hs[sl]:
                    V.append(("py-slice", "sim.particles[%s:%s:%s] with N=%d gives hashes %s, a list gives %s after %s [%s]" % (sl.start, sl.stop, sl.step, sim.N, got, hs[sl], op, tag)))
                    break
        if kind in ("remove", "remove_hash", "remove_all", "step", "update_tree") and sim.N_active > sim.N and getattr(self, "_nact_ok", True):
            # the force and energy loops run to N_active: a count beyond N makes them read slots that hold no particle
            V.append(("%s:N_active>N" % kind, "N_active=%d exceeds N=%d after %s [%s]" % (sim.N_active, sim.N, op, tag)))
        self._nact_ok = sim.N_active <= sim.N
        if sim.N > sim.N_allocated:
            V.append(("N>N_allocated", "N=%d exceeds N_allocated=%d after %s [%s]" % (sim.N, sim.N_allocated, op, tag)))
        return V

    def _resync(self, sim, ref):
        obs = self.observe(sim)
        ref["lst"] = [[u, h] for u, h, fl in obs]
        ref["N_active"] = sim.N_active


def configs(tier):
    cfgs = []
    for front in ("c", "py"):
        cfgs.append({"integrator": "ias15", "tree": False, "front": front})
        cfgs.append({"integrator": "ias15", "tree": True, "front": front})
        cfgs.append({"integrator": "mercurius", "tree": False, "front": front})
        cfgs.append({"integrator": "trace", "tree": False, "front": front})
    cfgs.append({"integrator": "mercurius", "tree": True, "hybrid_tree": True, "front": "c"})
    cfgs.append({"integrator": "trace", "tree": True, "hybrid_tree": True, "front": "py"})
    cfgs.append({"integrator": "ias15", "tree": True, "front": "c", "start": 2})
    cfgs.append({"integrator": "ias15", "tree": False, "front": "py", "start": 2})
    cfgs.append({"integrator": "ias15", "tree": False, "front": "c", "prefill": 127})
    cfgs.append({"integrator": "ias15", "tree": False, "front": "py", "prefill": 127})
    return cfgs


def run(ctx):
    rebound = ctx.use("asan")
    model = Model(rebound)
    import os
    depth = int(os.environ.get("VERIF_DEPTH", 0)) or (4 if ctx.tier == "quick" else 5)
    cfgs = configs(ctx.tier)
    res = histmc.bfs(ctx, model, cfgs, depth, timeout=60, label="C14")
    cov = {
        "states": res["states"], "transitions": res["transitions"],
        "traces_validated_against_impl": res["transitions"],
        "samples": res["samples"] or [{"cfg": cfgs[0], "history": []}],
        "max_depth": res["max_depth"], "configs": len(cfgs),
        "exhaustive": bool(res["complete"]),
        "rule": "BFS over all histories of the alphabet add/remove(index)/remove(hash)/set_hash/lookup/remove_all/set_N_active/update_tree|step "
                "up to the stated depth on the real asan-built object; state = canonical digest of hashes, N_active, lookup table and allocation sizes",
    }
    return ctx.finish(LEVEL, cov, assumptions=[
        "explored directly on the implementation (no model): every transition is an execution of the real library",
        "N_active is only demanded to decrement on order-preserving removal of an index < N_active with N>1, and to be -1 after remove_all",
        "in tree mode with N==1 the outcome of a removal is not specified and not checked",
    ])


def replay(ctx, case):
    rebound = ctx.use("asan")
    model = Model(rebound)
    out = histmc.replay(model, case)
    bad = 0
    for op, v in out:
        print(op, "->", v if v else "ok")
        bad += len(v)
    return 1 if bad else 0
