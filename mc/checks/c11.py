"""C11 -- orbital elements and Cartesian coordinates are consistent in both directions.

(A) anomaly functions on an e x M lattice (Kepler's equation, both regimes, incl. M=0 on hyperbolae)
(B) elements -> Cartesian on a lattice of G, primary, m, a, e, inc, Omega, omega/pomega, anomaly kind x value
    against a 40-digit evaluation of the textbook map; (C) Cartesian -> elements: ranges, defining relations, and the
    returned elements must reproduce the state; (D) invalid input is rejected, never a NaN particle;
(E) every subset of up to 4 argument names: the C format-string front end and the Python constructor accept /
    reject the same subsets and build the same particle.
"""
import ctypes
import itertools
import math

import mpmath as mp

from .. import pool, rb
from ..common import nanmax

LEVEL = "exploration"
U = 2.0 ** -53
mp.mp.dps = 40
TWO_PI = 2 * math.pi


# ------------------------------------------------------------------------------------------ reference map (mpmath)
def ref_f_from(kind, val, e, Omega, omega, inc, n, t, retro):
    """true anomaly from any accepted anomaly / longitude, 40 digits"""
    e = mp.mpf(e)
    if kind == "f":
        return mp.mpf(val)
    if kind == "theta":
        return (mp.mpf(val) - Omega - omega) if not retro else (mp.mpf(Omega) - omega - val)
    if kind == "l":
        M = (mp.mpf(val) - Omega - omega) if not retro else (mp.mpf(Omega) - omega - val)
    elif kind == "T":
        M = mp.mpf(n) * (mp.mpf(t) - val)
    elif kind == "M":
        M = mp.mpf(val)
    elif kind == "E":
        E = mp.mpf(val)
        M = None
    if kind != "E":
        if e < 1:
            E = mp.findroot(lambda x: x - e * mp.sin(x) - M, M + e * mp.sin(M), tol=mp.mpf(10) ** -35, maxsteps=200) if e > 0 else M
        else:
            if M == 0:
                E = mp.mpf(0)
            else:
                # e sinh H - H is monotone; H lies between 0 and asinh(|M|/(e-1)) (and (6|M|)^(1/3) bounds it for e->1)
                hi = min(mp.asinh(abs(M) / (e - 1)), mp.cbrt(6 * abs(M)) + mp.asinh(abs(M) / e) + 1)
                Ea = mp.findroot(lambda x: e * mp.sinh(x) - x - abs(M), (mp.mpf(0), hi * (1 + mp.mpf(10) ** -30) + mp.mpf(10) ** -30), solver="illinois", tol=mp.mpf(10) ** -34, maxsteps=400)
                E = Ea if M > 0 else -Ea
    if e < 1:
        return 2 * mp.atan2(mp.sqrt(1 + e) * mp.sin(E / 2), mp.sqrt(1 - e) * mp.cos(E / 2))
    return 2 * mp.atan(mp.sqrt((e + 1) / (e - 1)) * mp.tanh(E / 2))


def ref_cart(G, M0, m, a, e, inc, Omega, omega, f):
    mu = mp.mpf(G) * (mp.mpf(M0) + mp.mpf(m))
    a, e, inc, Omega, omega, f = [mp.mpf(x) for x in (a, e, inc, Omega, omega, f)]
    r = a * (1 - e * e) / (1 + e * mp.cos(f))
    v0 = mp.sqrt(mu / a / (1 - e * e))
    cO, sO, co, so, ci, si, cf, sf = mp.cos(Omega), mp.sin(Omega), mp.cos(omega), mp.sin(omega), mp.cos(inc), mp.sin(inc), mp.cos(f), mp.sin(f)
    x = r * (cO * (co * cf - so * sf) - sO * (so * cf + co * sf) * ci)
    y = r * (sO * (co * cf - so * sf) + cO * (so * cf + co * sf) * ci)
    z = r * (so * cf + co * sf) * si
    vx = v0 * ((e + cf) * (-ci * co * sO - cO * so) - sf * (co * cO - ci * so * sO))
    vy = v0 * ((e + cf) * (ci * co * cO - sO * so) - sf * (co * sO + ci * so * cO))
    vz = v0 * ((e + cf) * co * si - sf * si * so)
    return [x, y, z, vx, vy, vz]


def ulp_neighbours(x):
    if x == 0:
        return [0.0]
    return [math.nextafter(x, math.inf), math.nextafter(x, -math.inf)]


# ------------------------------------------------------------------------------------------ (A)
class Anomaly:
    def __init__(self, rebound):
        self.rebound = rebound
        cl = rebound.clibrebound
        for f in ("reb_M_to_E", "reb_E_to_f", "reb_M_to_f"):
            getattr(cl, f).restype = ctypes.c_double
            getattr(cl, f).argtypes = [ctypes.c_double, ctypes.c_double]
        self.cl = cl

    def __call__(self, task):
        e, M = task
        cl = self.cl
        V = []
        cls = "hyperbolic" if e > 1 else "elliptic"
        E = cl.reb_M_to_E(e, M)
        if E != E or abs(E) == math.inf:
            V.append(("anomaly:M_to_E:nan:%s:%s" % (cls, "M=0" if M == 0 else "M!=0"), "reb_M_to_E(e=%r, M=%r) = %r" % (e, M, E)))
            return V
        em, Mm, Em = mp.mpf(e), mp.mpf(M), mp.mpf(E)
        if e < 1:
            res = Em - em * mp.sin(Em) - Mm
            res = res - 2 * mp.pi * mp.nint(res / (2 * mp.pi))
            tol = 64 * U * (1 + abs(M) + abs(E))
            if not (0 <= E < TWO_PI * (1 + 4 * U)):
                V.append(("anomaly:M_to_E:range", "reb_M_to_E(e=%r, M=%r) = %r outside [0,2pi)" % (e, M, E)))
        else:
            res = em * mp.sinh(Em) - Em - Mm
            tol = 64 * U * (1 + abs(M) + abs(e * math.sinh(E)) if abs(E) < 700 else float("inf"))
        if not (abs(res) <= tol):
            V.append(("anomaly:kepler-equation:%s" % cls, "reb_M_to_E(e=%r, M=%r) = %r violates Kepler's equation by %.3g" % (e, M, E, float(res))))
        # E -> f against the defining relation
        f = cl.reb_E_to_f(e, E)
        if f != f:
            V.append(("anomaly:E_to_f:nan:%s" % cls, "reb_E_to_f(e=%r, E=%r) = nan" % (e, E)))
            return V
        if e < 1:
            cf = (mp.cos(Em) - em) / (1 - em * mp.cos(Em))
            sf = mp.sqrt(1 - em * em) * mp.sin(Em) / (1 - em * mp.cos(Em))
        else:
            cf = (em - mp.cosh(Em)) / (em * mp.cosh(Em) - 1)
            sf = mp.sqrt(em * em - 1) * mp.sinh(Em) / (em * mp.cosh(Em) - 1)
        want = mp.atan2(sf, cf)
        d = mp.mpf(f) - want
        d = d - 2 * mp.pi * mp.nint(d / (2 * mp.pi))
        cond = 1 + 1 / abs(1 - e) ** 0.5 + (abs(e) / abs(1 - e)) ** 0.5
        if not (abs(d) <= 256 * U * cond * (1 + abs(E) if e < 1 else 1)):
            V.append(("anomaly:E_to_f:%s" % cls, "reb_E_to_f(e=%r, E=%r) = %r, the defining relation gives %r" % (e, E, f, float(want % (2 * mp.pi)))))
        if not (0 <= f < TWO_PI * (1 + 4 * U)):
            V.append(("anomaly:E_to_f:range", "reb_E_to_f(e=%r, E=%r) = %r outside [0,2pi)" % (e, E, f)))
        f2 = cl.reb_M_to_f(e, M)
        if f2 != f:
            V.append(("anomaly:M_to_f-inconsistent", "reb_M_to_f(%r,%r)=%r but reb_E_to_f(reb_M_to_E)=%r" % (e, M, f2, f)))
        # Python wrappers are bit-equal to C
        try:
            pE = self.rebound.M_to_E(e, M)
            if pE != E and not (pE != pE and E != E):
                V.append(("anomaly:python-vs-c", "rebound.M_to_E(%r,%r)=%r, C gives %r" % (e, M, pE, E)))
        except Exception as ex:
            V.append(("anomaly:python-raises", "rebound.M_to_E(%r,%r) raises %s" % (e, M, ex)))
        return V


# ------------------------------------------------------------------------------------------ (B) + (C)
class Elements:
    def __init__(self, rebound):
        self.rebound = rebound

    def __call__(self, task):
        G, prim, m, a, e, inc, Omega, omega, peri_kind, akind, aval = task
        rebound = self.rebound
        rb.quiet()
        V = []
        tag = "G=%r primary=%s m=%r a=%r e=%r inc=%r Omega=%r %s=%r %s=%r" % (G, prim, m, a, e, inc, Omega, peri_kind, omega, akind, aval)
        sim = rebound.Simulation()
        sim.G = G
        sim.t = 0.4
        M0, moving = prim
        if moving:
            sim.add(m=M0, x=0.3, y=-0.2, z=0.1, vx=0.01, vy=0.02, vz=-0.005)
        else:
            sim.add(m=M0)
        P0 = sim.particles[0]
        retro = math.cos(inc) <= 0
        kw = {"m": m, "a": a, "e": e, "inc": inc, "Omega": Omega, peri_kind: omega, akind: aval, "primary": P0, "simulation": sim}
        n = math.sqrt(G * (M0 + m) / abs(a) ** 3)
        if peri_kind == "pomega":
            om = (omega - Omega) if not retro else (Omega - omega)
        else:
            om = omega
        cls = ("hyperbolic" if e > 1 else "elliptic") + ("/retro" if retro else "") + ("/planar" if (inc < 1e-7 or inc > math.pi - 1e-7) else "")
        try:
            p = rebound.Particle(**kw)
        except ValueError as ex:
            # legitimate only for f beyond the asymptotes
            if e > 1 and akind in ("f", "theta"):
                fr = float(ref_f_from(akind, aval, e, Omega, om, inc, n, sim.t, retro))
                if math.cos(fr) <= -1 / e + 1e-9:
                    return V, 0
            V.append(("elements:valid-input-rejected:%s:%s" % (cls, akind), "valid elements rejected: %s [%s]" % (ex, tag)))
            return V, 0
        got = [p.x - P0.x, p.y - P0.y, p.z - P0.z, p.vx - P0.vx, p.vy - P0.vy, p.vz - P0.vz]
        if any(v != v for v in got):
            V.append(("elements:nan-particle:%s:%s" % (cls, akind), "accepted elements produce a NaN particle %s [%s]" % (got, tag)))
            return V, 1
        # reference and its conditioning
        def R(a_, e_, inc_, Om_, om_, val_):
            f = ref_f_from(akind, val_, e_, Om_, om_, inc_, n, sim.t, retro)
            return ref_cart(G, M0, m, a_, e_, inc_, Om_, om_, f)
        ref = R(a, e, inc, Omega, om, aval)
        D = [mp.mpf(0)] * 6
        base = [a, e, inc, Omega, om, aval]
        for k in range(6):
            for nb in ulp_neighbours(base[k]):
                if k == 1 and (nb < 0 or (e < 1) != (nb < 1)):
                    continue
                args = list(base)
                args[k] = nb
                try:
                    rr = R(*args)
                except Exception:
                    continue
                D = [max(d, abs(x - y)) for d, x, y in zip(D, rr, ref)]
        # a relative error of a few ulp in the mean anomaly (n (t-T), l-Omega-omega are computed in double precision)
        if akind in ("M", "l", "T"):
            for s_ in (1 + 2.0 ** -49, 1 - 2.0 ** -49):
                def R2(val_):
                    f = ref_f_from(akind, val_, e, Omega, om, inc, n * s_, sim.t, retro) if akind == "T" else ref_f_from("M", _M * s_, e, Omega, om, inc, n, sim.t, retro)
                    return ref_cart(G, M0, m, a, e, inc, Omega, om, f)
                if akind == "M":
                    _M = mp.mpf(aval)
                elif akind == "l":
                    _M = (mp.mpf(aval) - Omega - om) if not retro else (mp.mpf(Omega) - om - aval)
                    _M = _M + mp.mpf(2.0 ** -49) * (abs(aval) + abs(Omega) + abs(om)) * (1 if s_ > 1 else -1) / s_
                else:
                    _M = None
                try:
                    rr = R2(aval)
                    D = [max(d, abs(x - y)) for d, x, y in zip(D, rr, ref)]
                except Exception:
                    pass
        # the solver of Kepler's equation stops at an absolute residual of 1e-16 (what the statement asks of it): allow the effect
        # of that residual on the state
        if akind in ("M", "l", "T"):
            if akind == "M":
                M0_ = mp.mpf(aval)
            elif akind == "l":
                M0_ = (mp.mpf(aval) - Omega - om) if not retro else (mp.mpf(Omega) - om - aval)
            else:
                M0_ = mp.mpf(n) * (mp.mpf(sim.t) - aval)
            for dM in (2e-16, -2e-16):
                try:
                    f_ = ref_f_from("M", M0_ + dM, e, Omega, om, inc, n, sim.t, retro)
                    rr = ref_cart(G, M0, m, a, e, inc, Omega, om, f_)
                    D = [max(d, abs(x - y)) for d, x, y in zip(D, rr, ref)]
                except Exception:
                    pass
        spos = max(abs(float(x)) for x in ref[:3])
        svel = max(abs(float(x)) for x in ref[3:])
        # the textbook formula r = a(1-e^2)/(1+e cos f) itself loses log10(1/|1-e|) digits in 1-e^2
        ecc_amp = 1 + 8 / abs(1 - e)
        # the map goes through the true anomaly, which is ill-conditioned near the asymptotes of a hyperbola
        fref = float(ref_f_from(akind, aval, e, Omega, om, inc, n, sim.t, retro))
        asym = 1 + (e / max(abs(1 + e * math.cos(fref)), 1e-300) if e > 1 else 0.0)
        for k in range(6):
            tol = 16 * float(D[k]) + 64 * U * (spos if k < 3 else svel) * ecc_amp * asym
            if not (abs(got[k] - float(ref[k])) <= tol):
                V.append(("elements:to-cartesian:%s:%s" % (cls, akind), "component %d: got %r, the textbook map gives %r (tolerance %.3g) [%s]" % (k, got[k], float(ref[k]), tol, tag)))
                break
        # ---- Cartesian -> elements
        sim.add(p)
        o = sim.particles[1].orbit(primary=P0)
        vals = {k: getattr(o, k) for k in ("d", "v", "h", "P", "n", "a", "e", "inc", "Omega", "omega", "pomega", "f", "M", "l", "theta", "T", "pal_h", "pal_k", "pal_ix", "pal_iy")}
        bad = [k for k, v in vals.items() if v != v and not (k.startswith("pal_") and inc > math.pi - 1e-6)]    # Pal's variables are singular at inc=pi
        if bad:
            V.append(("orbit:nan:%s:%s" % (cls, ",".join(bad[:3])), "orbit of an accepted particle has NaN fields %s [%s]" % (bad, tag)))
            return V, 1
        # ranges
        if not (-math.pi * (1 + 4 * U) <= vals["Omega"] <= math.pi * (1 + 4 * U)):
            V.append(("orbit:range:Omega", "Omega=%r outside (-pi,pi] [%s]" % (vals["Omega"], tag)))
        for k in ("omega", "f", "M", "l", "theta"):
            if k == "M" and e > 1:
                continue
            if not (0 <= vals[k] < TWO_PI * (1 + 8 * U)):
                V.append(("orbit:range:%s" % k, "%s=%r outside [0,2pi) [%s]" % (k, vals[k], tag)))
        if not (0 <= vals["inc"] <= math.pi) or vals["e"] < 0:
            V.append(("orbit:range:inc-e", "inc=%r e=%r [%s]" % (vals["inc"], vals["e"], tag)))
        # the returned elements must describe the same state (this is what "the same orbit" means when angles are degenerate)
        rec = ref_cart(G, M0, m, vals["a"], vals["e"], vals["inc"], vals["Omega"], vals["omega"], vals["f"])
        ecc_cond = 1 + 1 / abs(1 - e) + (1 / e if e > 1e-3 else 0)
        # Cartesian -> elements takes angles from acos(), whose absolute accuracy near 0 and pi is sqrt(u) ~ 1.5e-8;
        # near the asymptote of a hyperbola the state is sensitive to f like 1/(1+e cos f)
        SQ = 4 * math.sqrt(U)
        cf = 1 + vals["e"] / max(abs(1 + vals["e"] * math.cos(vals["f"])), 1e-300)
        for k in range(6):
            tol = (64 * float(D[k]) + 4096 * U * (spos if k < 3 else svel)) * ecc_cond + SQ * (spos if k < 3 else svel) * cf * 4
            if not (abs(float(rec[k]) - got[k]) <= tol):
                V.append(("orbit:does-not-reproduce-state:%s" % cls, "state rebuilt from the returned (a,e,inc,Omega,omega,f) differs in component %d: %r vs %r (tol %.3g); returned %s [%s]" % (
                    k, float(rec[k]), got[k], tol, {x: vals[x] for x in ("a", "e", "inc", "Omega", "omega", "f")}, tag)))
                break
        # a, e, inc come back
        if abs(vals["a"] - a) > 1e-9 * abs(a) * ecc_cond or abs(vals["e"] - e) > 1e-9 * ecc_cond or abs(vals["inc"] - (inc % TWO_PI if inc <= math.pi else inc)) > 1e-7:
            V.append(("orbit:a-e-inc:%s" % cls, "set (a,e,inc)=(%r,%r,%r), read back (%r,%r,%r) [%s]" % (a, e, inc, vals["a"], vals["e"], vals["inc"], tag)))
        # defining relations
        mu = G * (M0 + m)

        def angle_close(x, y, tol):
            d = (x - y) % TWO_PI
            return min(d, TWO_PI - d) <= tol
        atol = (1e-8 * ecc_cond + 8 * math.sqrt(U)) * cf
        if not retro:
            rel = [("pomega=Omega+omega", vals["pomega"], vals["Omega"] + vals["omega"]), ("theta=pomega+f", vals["theta"], vals["pomega"] + vals["f"])]
            if e < 1:
                rel.append(("l=pomega+M", vals["l"], vals["pomega"] + vals["M"]))
        else:
            rel = [("pomega=Omega-omega", vals["pomega"], vals["Omega"] - vals["omega"]), ("theta=pomega-f", vals["theta"], vals["pomega"] - vals["f"])]
            if e < 1:
                rel.append(("l=pomega-M", vals["l"], vals["pomega"] - vals["M"]))
        for name, x, y in rel:
            if not angle_close(x, y, atol):
                V.append(("orbit:relation:%s" % name, "%s violated: %r vs %r [%s]" % (name, x, y, tag)))
        if not (abs(vals["n"] ** 2 * abs(vals["a"]) ** 3 - mu) <= 1e-9 * mu * ecc_cond):
            V.append(("orbit:relation:n2a3", "n^2 |a|^3 = %r, mu = %r [%s]" % (vals["n"] ** 2 * abs(vals["a"]) ** 3, mu, tag)))
        if not (abs(vals["h"] ** 2 - mu * vals["a"] * (1 - vals["e"] ** 2)) <= 1e-9 * vals["h"] ** 2 * ecc_cond):
            V.append(("orbit:relation:h2", "h^2 = %r, mu a (1-e^2) = %r [%s]" % (vals["h"] ** 2, mu * vals["a"] * (1 - vals["e"] ** 2), tag)))
        if e < 1:
            # Kepler's equation between the returned M, e, f
            E_ = 2 * math.atan2(math.sqrt(1 - vals["e"]) * math.sin(vals["f"] / 2), math.sqrt(1 + vals["e"]) * math.cos(vals["f"] / 2))
            # the eccentric anomaly comes from acos((1-d/a)/e): absolute accuracy sqrt(u/e) near peri- and apocentre
            if not angle_close(E_ - vals["e"] * math.sin(E_), vals["M"], atol + 8 * math.sqrt(U / max(vals["e"], 1e-8))):
                V.append(("orbit:relation:kepler", "returned M=%r is not E-e sin E = %r for the returned e,f [%s]" % (vals["M"], (E_ - vals["e"] * math.sin(E_)) % TWO_PI, tag)))
            # T = t - M/n modulo the period
            dT = (sim.t - vals["T"]) * vals["n"]
            if not angle_close(dT, vals["M"], (atol + 8 * math.sqrt(U / max(vals["e"], 1e-8))) * (1 + abs(dT))):
                V.append(("orbit:relation:T", "n (t-T) = %r but M = %r [%s]" % (dT % TWO_PI, vals["M"], tag)))
        else:
            # hyperbolic: n<0 by convention; M = |n| (t-T) with its sign (negative before pericentre)
            fr = vals["f"] if vals["f"] < math.pi else vals["f"] - TWO_PI
            H = 2 * math.atanh(math.sqrt((vals["e"] - 1) / (vals["e"] + 1)) * math.tan(fr / 2))
            Mh = vals["e"] * math.sinh(H) - H
            if not (abs(abs(vals["n"]) * (sim.t - vals["T"]) - Mh) <= (1e-8 * ecc_cond + 16 * math.sqrt(U) * cf * (1 + vals["e"])) * (1 + abs(Mh))):
                V.append(("orbit:relation:T-hyperbolic", "|n|(t-T) = %r, the hyperbolic Kepler equation for the returned e,f gives M = %r [%s]" % (abs(vals["n"]) * (sim.t - vals["T"]), Mh, tag)))
            # the reported M itself: e sinh H - H, negative before pericentre (it is not an angle and must not be wrapped)
            if not (abs(vals["M"] - Mh) <= (1e-8 * ecc_cond + 16 * math.sqrt(U) * cf * (1 + vals["e"])) * (1 + abs(Mh))):
                V.append(("orbit:relation:M-hyperbolic", "returned M = %r, the hyperbolic Kepler equation for the returned e,f gives M = %r [%s]" % (vals["M"], Mh, tag)))
        # Pal definitions
        if not retro:     # for retrograde orbits REBOUND's pomega = Omega-omega, Pal's variables use Omega+omega: not compared
            want = (vals["e"] * math.sin(vals["pomega"]), vals["e"] * math.cos(vals["pomega"]), 2 * math.sin(vals["inc"] / 2) * math.cos(vals["Omega"]), 2 * math.sin(vals["inc"] / 2) * math.sin(vals["Omega"]))
            gotp = (vals["pal_h"], vals["pal_k"], vals["pal_ix"], vals["pal_iy"])
            if not (nanmax(abs(x - y) for x, y in zip(want, gotp)) <= (1e-8 * ecc_cond + 16 * math.sqrt(U)) * (1 + vals["e"])):
                V.append(("orbit:relation:pal:%s" % ("retro" if retro else "pro"), "Pal (h,k,ix,iy) = %s, definitions give %s [%s]" % (gotp, want, tag)))
        return V, 1


# ------------------------------------------------------------------------------------------ (D) + (E)
NAMES = ["m", "x", "y", "z", "vx", "vy", "vz", "primary", "a", "P", "e", "inc", "Omega", "omega", "pomega", "f", "M", "E", "l", "theta", "T", "h", "k", "ix", "iy", "r"]
DEFAULT = {"m": 1e-3, "x": 0.3, "y": -0.4, "z": 0.1, "vx": 0.05, "vy": 0.8, "vz": -0.02, "a": 1.3, "P": 7.0, "e": 0.2, "inc": 0.4, "Omega": 0.5, "omega": 0.6,
           "pomega": 1.2, "f": 0.7, "M": 0.8, "E": 0.9, "l": 1.0, "theta": 1.1, "T": 0.3, "h": 0.05, "k": 0.1, "ix": 0.02, "iy": 0.03, "r": 0.01}
INVALID = [{"a": 1.3, "e": 1.0}, {"a": 1.3, "e": -0.1}, {"a": -1.3, "e": 0.5}, {"a": 1.3, "e": 1.5}, {"a": -1.3, "e": 1.5, "f": 2.5}, {"a": -1.3, "e": 1.5, "f": -2.5},
           {"a": 1.3, "ix": 1.5, "iy": 1.5}, {"a": 1.3, "e": 0.2, "primary_mass": 0.0}, {"a": -2.0, "e": 3.0, "theta": 3.1}, {"P": 7.0, "e": 1.0},
           # Pal eccentricity vector of length >= 1 (sqrt(1-h^2-k^2) in the constructor), also in one component only and exactly 1
           {"a": 1.0, "h": 0.9, "k": 0.8}, {"a": 1.0, "h": 1.2}, {"a": 1.0, "k": -1.5, "ix": 0.1}, {"a": 1.0, "h": 0.6, "k": 0.8}, {"P": 7.0, "h": 1.0, "l": 0.3}]


class FrontEnds:
    def __init__(self, rebound):
        self.rebound = rebound
        cl = rebound.clibrebound
        cl.reb_particle_from_fmt.restype = rebound.Particle
        self.cl = cl

    def sim(self, primary_mass=1.0):
        sim = self.rebound.Simulation()
        sim.G = 1.0
        sim.t = 0.1
        sim.add(m=primary_mass, x=0.01, vy=0.002)
        return sim

    def both(self, kw, primary_mass=1.0):
        """-> (python particle or exception text, C particle or None)"""
        rebound = self.rebound
        sim = self.sim(primary_mass)
        prim = rebound.Particle(m=0.7, x=-0.2, y=0.1, vz=0.01)
        pk = dict(kw)
        if "primary" in pk:
            pk["primary"] = prim
        try:
            pp = rebound.Particle(simulation=sim, **pk)
            pyres = [pp.m, pp.x, pp.y, pp.z, pp.vx, pp.vy, pp.vz, pp.r]
        except ValueError as ex:
            pyres = str(ex)
        names = list(kw)
        fmt = " ".join(names).encode()
        args = []
        for nme in names:
            if nme == "primary":
                args.append(prim)
            else:
                args.append(ctypes.c_double(kw[nme]))
        cp = self.cl.reb_particle_from_fmt(ctypes.byref(sim), fmt, *args)
        cres = [cp.m, cp.x, cp.y, cp.z, cp.vx, cp.vy, cp.vz, cp.r]
        if all(v != v for v in cres[1:7]):
            cres = None
        return pyres, cres

    def __call__(self, task):
        kind, spec = task
        rb.quiet()
        V = []
        if kind == "subset":
            kw = {nme: (DEFAULT[nme] if nme != "primary" else None) for nme in spec}
            import os
            devnull = os.open(os.devnull, os.O_WRONLY)
            save = os.dup(2)
            os.dup2(devnull, 2)
            try:
                py, c = self.both(kw)
            finally:
                os.dup2(save, 2)
                os.close(devnull)
                os.close(save)
            pyok = not isinstance(py, str)
            cok = c is not None
            if pyok != cok:
                V.append(("frontends:accept-differs:%s" % ("python-only" if pyok else "c-only"), "arguments (%s): Python %s, C %s" % (", ".join(spec), "accepts" if pyok else "rejects (%s)" % py[:60], "accepts" if cok else "rejects")))
            elif pyok:
                if any(v != v for v in py):
                    V.append(("frontends:nan-accepted", "arguments (%s) accepted but particle has NaN: %s" % (", ".join(spec), py)))
                else:
                    lim = 64 if ("P" in spec or "T" in spec) else 0
                    for a, b in zip(py, c):
                        if a != b and (lim == 0 or abs(a - b) > lim * U * (abs(a) + abs(b) + 1e-300) * 8):
                            V.append(("frontends:particle-differs", "arguments (%s): Python builds %s, C builds %s" % (", ".join(spec), py, c)))
                            break
            return V, (1 if pyok else 0)
        # invalid values must be rejected by both, never yielding a NaN particle silently
        kw = dict(spec)
        pm = kw.pop("primary_mass", 1.0)
        import os
        devnull = os.open(os.devnull, os.O_WRONLY)
        save = os.dup(2)
        os.dup2(devnull, 2)
        try:
            py, c = self.both(kw, pm)
        finally:
            os.dup2(save, 2)
            os.close(devnull)
            os.close(save)
        if not isinstance(py, str):
            V.append(("invalid-accepted:python", "invalid elements %s accepted by Python: particle %s" % (spec, py)))
        if c is not None:
            V.append(("invalid-accepted:c", "invalid elements %s accepted by C: particle %s" % (spec, c)))
        return V, 1


class PalMap:
    """Pal variables -> Cartesian through reb_particle_from_pal and Particle(a=,l=,h=,k=,ix=,iy=), and back"""
    def __init__(self, rebound):
        self.rebound = rebound

    def __call__(self, task):
        import ctypes
        from .c16 import mp_pal_to_cart
        e, pom, lam, inc, Om, a, G, M0, m = task
        rebound = self.rebound
        cl = rebound.clibrebound
        rb.quiet()
        h, k = e * math.sin(pom), e * math.cos(pom)
        ix, iy = 2 * math.sin(inc / 2) * math.cos(Om), 2 * math.sin(inc / 2) * math.sin(Om)
        ref = mp_pal_to_cart(G, M0, m, *[mp.mpf(v) for v in (a, lam, h, k, ix, iy)])
        prim = rebound.Particle(m=M0)
        cl.reb_particle_from_pal.restype = rebound.Particle
        c = cl.reb_particle_from_pal(ctypes.c_double(G), prim, *[ctypes.c_double(v) for v in (m, a, lam, k, h, ix, iy)])
        sim = rebound.Simulation()
        sim.G = G
        sim.add(m=M0)
        sim.add(m=m, a=a, l=lam, h=h, k=k, ix=ix, iy=iy)
        py = sim.particles[1]
        V = []
        sp = max(abs(v) for v in ref[:3])
        sv = max(abs(v) for v in ref[3:])
        tag = "a=%r lambda=%r h=%r k=%r ix=%r iy=%r (e=%g) G=%g M=%g m=%g" % (a, lam, h, k, ix, iy, e, G, M0, m)
        for name, p in (("reb_particle_from_pal", c), ("Particle(a,l,h,k,ix,iy)", py)):
            got = [p.x, p.y, p.z, p.vx, p.vy, p.vz]
            for j in range(6):
                tol = 1e-12 / (1 - e) ** 2 * (sp if j < 3 else sv)
                if not abs(mp.mpf(got[j]) - ref[j]) <= tol:
                    V.append(("pal-forward:%s" % ("lowe" if e * e < 0.09 else "highe"), "%s: component %d is %r, the definition of Pal's variables gives %s [%s]" % (name, j, got[j], mp.nstr(ref[j], 17), tag)))
                    break
        # and back
        out = [ctypes.c_double() for _ in range(6)]
        cl.reb_tools_particle_to_pal(ctypes.c_double(G), c, prim, *[ctypes.byref(o) for o in out])
        back = [o.value for o in out]        # a, lambda, k, h, ix, iy
        want = [a, lam, k, h, ix, iy]
        for j, nm in enumerate(("a", "lambda", "k", "h", "ix", "iy")):
            d = back[j] - want[j]
            if nm == "lambda":
                d = math.remainder(d, TWO_PI)
            if not abs(d) <= 1e-11 / (1 - e) ** 2 * max(1.0, abs(want[j])):
                V.append(("pal-roundtrip", "particle_to_pal(from_pal(.)).%s = %r instead of %r [%s]" % (nm, back[j], want[j], tag)))
                break
        return V, 1


def run(ctx):
    rebound = ctx.use("rel")
    # (A)
    es = [0.0, 1e-12, 1e-4, 0.1, 0.5, 0.79, 0.81, 0.9, 0.99, 1 - 1e-6, 1 + 1e-6, 1.01, 1.5, 10.0, 1e3]
    Ms = [0.0, 1e-300, -1e-300, 1e-9, -1e-9, 0.1, -0.1, 1.0, math.pi - 1e-9, math.pi, math.pi + 1e-9, 2 * math.pi, 7.0, -1.0, -7.0, 30.0, 1e3, -1e3]
    at = [(e, M) for e in es for M in Ms]
    ares = pool.run_tasks(Anomaly(rebound), ctx.shuffled(at), timeout=60, chunk=32)
    for t, r in zip(ctx.shuffled(at), ares):
        if r[0] != "ok":
            ctx.violation("anomaly-%s" % r[0], "%s in anomaly case %s: %s" % (r[0], t, str(r[1])[-400:]), {"kind": "anomaly", "task": list(t)})
            continue
        for sig, what in r[1]:
            ctx.violation(sig, what, {"kind": "anomaly", "task": list(t)})
    # (B)+(C)
    et = []
    Gs = [1.0, 39.476926421373]
    prims = [(1.0, False), (1e-3, True)]
    incs = [0.0, 1e-10, 2e-8, 0.5, math.pi / 2 - 1e-9, math.pi / 2 + 1e-9, 2.5, math.pi - 2e-8, math.pi - 1e-10, math.pi]
    angs = [0.0, 1.0, math.pi, TWO_PI - 1e-9, -1.0]
    eas = [(0.0, 1.0), (1e-10, 1.0), (1e-4, 1e-3), (0.1, 1.0), (0.9, 1e4), (1 - 1e-6, 1.0), (1 + 1e-6, -1.0), (1.5, -1.0), (10.0, -1e-3)]
    kinds = ["f", "M", "E", "l", "theta", "T"]
    avals = [0.0, 1e-9, 1.0, math.pi - 1e-9, math.pi, 7.0, -1.0]
    full = ctx.tier == "thorough"
    for G in Gs:
        for prim in prims:
            for m in (0.0, 1e-3):
                for (e, a) in eas:
                    for inc in incs:
                        for Om in (angs if full else angs[:3]):
                            for om in (angs if full else [0.0, 1.0, -1.0]):
                                for pk in ("omega", "pomega"):
                                    for ak in kinds:
                                        for av in (avals if full else [0.0, 1.0, math.pi, -1.0]):
                                            if not full and ((G != 1.0) + prim[1] + (m == 0.0) + (pk == "pomega")) > 1:
                                                continue
                                            if e > 1 and ak in ("f", "theta") and abs(av) > 1.0:
                                                continue
                                            if e > 1 and ak == "E" and abs(av) > 3:
                                                continue
                                            et.append((G, prim, m, a, e, inc, Om, om, pk, ak, av))
    et = ctx.shuffled(et)
    ctx.note("element cases: %d" % len(et))
    eres = pool.run_tasks(Elements(rebound), et, timeout=120, chunk=64, progress=lambda d, n: ctx.note("element cases %d/%d" % (d, n)))
    nel = 0
    for t, r in zip(et, eres):
        if r[0] != "ok":
            ctx.violation("elements-%s" % r[0], "%s in element case %s: %s" % (r[0], t, str(r[1])[-500:]), {"kind": "elements", "task": list(t)})
            continue
        V, k = r[1]
        nel += k
        for sig, what in V:
            ctx.violation(sig, what, {"kind": "elements", "task": list(t)})
    # (D)+(E)
    ft = []
    for n in (1, 2, 3, 4):
        for c in itertools.combinations(NAMES, n):
            ft.append(("subset", list(c)))
    for spec in INVALID:
        ft.append(("invalid", spec))
    ft = ctx.shuffled(ft)
    fres = pool.run_tasks(FrontEnds(rebound), ft, timeout=120, chunk=128)
    nacc = 0
    for t, r in zip(ft, fres):
        if r[0] != "ok":
            ctx.violation("frontends-%s" % r[0], "%s in front-end case %s: %s" % (r[0], t, str(r[1])[-500:]), {"kind": "frontends", "task": list(t)})
            continue
        V, k = r[1]
        nacc += k
        for sig, what in V:
            ctx.violation(sig, what, {"kind": "frontends", "task": list(t)})
    # (F) Pal's variables: forward map and round trip on an eccentricity lattice that straddles the solver's internal switch at e=0.3
    pt = [(e, pom, -3.0 + 0.55 * j, inc, Om, a, G, M0, m)
          for e in (0.0, 1e-8, 0.05, 0.15, 0.2, 0.25, 0.29, 0.2999, 0.3, 0.3001, 0.6, 0.95)
          for pom in (0.0, 1.3, -2.0, 3.0) for j in range(12) for (inc, Om) in ((0.0, 0.0), (0.4, 0.7), (2.6, -2.0))
          for (a, G, M0, m) in ((1.3, 1.0, 1.0, 1e-3), (0.2, 39.476926421373, 0.8, 0.0))]
    pt = ctx.shuffled(pt)
    pres = pool.run_tasks(PalMap(rebound), pt, timeout=120, chunk=32)
    for t, r in zip(pt, pres):
        if r[0] != "ok":
            ctx.violation("pal-%s" % r[0], "%s in Pal case %s: %s" % (r[0], t, str(r[1])[-400:]), {"kind": "pal", "task": list(t)})
            continue
        for sig, what in r[1][0]:
            ctx.violation(sig, what, {"kind": "pal", "task": list(t)})
    cov = {
        "evaluations": len(at) + len(et) + len(ft) + len(pt), "distinct_nontrivial": len(at) + nel + nacc + len(pt),
        "rule": "anomaly functions on 15 eccentricities x 18 mean anomalies; element lattice G x primary x m x (e,a) x 10 inclinations (planar limits, retrograde) x Omega x omega|pomega x 6 anomaly kinds x values; "
                "every subset of <=4 of the 26 argument names through the C and the Python front end; 10 invalid value combinations; Pal forward map and round trip on 12 eccentricities x 4 pericentre longitudes x 12 mean longitudes x 3 orientations x 2 unit systems",
        "samples": [list(at[0]), list(et[0]), list(ft[0])], "accepted_subsets": nacc, "element_cases_accepted": nel, "exhaustive": True,
    }
    return ctx.finish(LEVEL, cov, assumptions=[
        "reference = textbook elements->Cartesian map at 40 digits; tolerance = 16x the effect of a 1-ulp change of any input on the reference + 256 u scale",
        "'same orbit' is judged by rebuilding the state from the returned (a,e,inc,Omega,omega,f), which is insensitive to how degenerate angles are split",
        "hyperbolic mean anomaly is not demanded to lie in [0,2pi)",
    ])


def replay(ctx, case):
    rebound = ctx.use("rel")
    k, t = case["kind"], case["task"]
    if k == "anomaly":
        V = Anomaly(rebound)(tuple(t))
    elif k == "elements":
        t = list(t)
        t[1] = tuple(t[1])
        V, _ = Elements(rebound)(tuple(t))
    elif k == "pal":
        V, _ = PalMap(rebound)(tuple(t))
    else:
        V, _ = FrontEnds(rebound)(tuple(t))
    for v in V:
        print(v)
    return 1 if V else 0
