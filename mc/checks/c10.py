"""C10 -- JANUS is bit-wise time reversible; symmetric schemes reverse to rounding error.

JANUS: order x scale x N x n x grid-representable initial conditions x first direction (x user-requested recalculation
of the integer coordinates): n steps, negate dt, n steps must restore every bit of every coordinate and of p_int.
Symmetric fixed-step schemes without correctors / processors: the same round trip returns to the start within
K u n scale.
"""
import ctypes
import math
import struct

from .. import lattice, pool, rb

LEVEL = "exploration"
U = 2.0 ** -53
ROUND_K = 2000.0      # tolerance K*u*n*scale; the observed maximum K is recorded in the evidence


def grid(v, scale):
    """nearest value to v that is a fixed point of to_double(to_int(.))"""
    k = int(v / scale)
    for kk in (k, k + 1, k - 1, k + 2):
        x = float(kk) * scale
        if int(x / scale) == kk and float(int(x / scale)) * scale == x:
            return x, kk
    raise ValueError("no grid point near %r for scale %r" % (v, scale))


def ic(which, N):
    G, bodies, P = lattice.system("S4G" if which == 3 else "S3t" if N == 4 else "S3")
    b = [list(x) for x in bodies[:N]]
    if which == 1:
        for x in b:
            x[1], x[2] = -x[2], x[1]
            x[4], x[5] = -x[5], x[4]
    elif which == 2:
        for i, x in enumerate(b):
            x[3] += 0.05 * i
            x[6] -= 0.01 * i
    return G, b, P


class Janus:
    def __init__(self, rebound):
        self.rebound = rebound

    def __call__(self, task):
        order, scale, N, n, which, first, userflag = task
        rebound = self.rebound
        rb.quiet()
        V = []
        spos, svel = scale if isinstance(scale, (tuple, list)) else (scale, scale)
        tag = "order=%d scale_pos=%g scale_vel=%g N=%d n=%d ic=%d first=%+d userflag=%d" % (order, spos, svel, N, n, which, first, userflag)
        G, b, P = ic(which, N)
        sim = rebound.Simulation()
        sim.G = G
        sim.integrator = "janus"
        sim.ri_janus.order = order
        sim.ri_janus.scale_pos = spos
        sim.ri_janus.scale_vel = svel
        ints = []
        for x in b:
            vals = []
            ks = []
            for k in range(1, 7):
                g, kk = grid(x[k], spos if k <= 3 else svel)
                vals.append(g)
                ks.append(kk)
            ints.append(ks)
            sim.add(m=x[0], x=vals[0], y=vals[1], z=vals[2], vx=vals[3], vy=vals[4], vz=vals[5])
        sim.dt = first * P / 37.0

        def coords():
            return b"".join(struct.pack("<6d", p.x, p.y, p.z, p.vx, p.vy, p.vz) for p in sim.particles)
        start = coords()
        if userflag == 3:
            sim.gravity = "compensated"      # the other direct-summation routine: the force must still be a function of the positions alone
        elif userflag in (4, 5, 6):
            # test particles (their forces come from separate loops of the force routines): 4 compensated, 5 basic, both with the
            # last body a test particle; 6 compensated, only the first body active, test particles acting back on it
            sim.gravity = "basic" if userflag == 5 else "compensated"
            sim.N_active = 1 if userflag == 6 else N - 1
            sim.testparticle_type = 1 if userflag == 6 else 0
        elif userflag:
            sim.ri_janus.recalculate_integer_coordinates_this_timestep = 1   # documented: "set to 1 if particles have been modified"
        if userflag == 2:
            # start from a non-initial state: run, modify a particle and ask (once) for recalculation, take one step on the
            # new grid; the round trip is then measured from that state
            sim.steps(3)
            sim.particles[1].vz += 1e-3
            sim.ri_janus.recalculate_integer_coordinates_this_timestep = 1
            sim.steps(1)
            start = coords()
            ints = [[sim.ri_janus.p_int[i].x, sim.ri_janus.p_int[i].y, sim.ri_janus.p_int[i].z, sim.ri_janus.p_int[i].vx, sim.ri_janus.p_int[i].vy, sim.ri_janus.p_int[i].vz] for i in range(N)]
        sim.steps(n)
        mid = coords()
        sim.dt = -sim.dt
        sim.steps(n)
        end = coords()
        if mid == start:
            V.append(("janus:did-not-move", "harness: %d steps left the particles where they were [%s]" % (n, tag)))
        if end != start:
            # which coordinate
            ps = sim.particles
            diffs = []
            for i in range(N):
                for k, a in enumerate(("x", "y", "z", "vx", "vy", "vz")):
                    v0 = struct.unpack_from("<d", start, i * 48 + 8 * k)[0]
                    v1 = getattr(ps[i], a)
                    if struct.pack("<d", v1) != struct.pack("<d", v0):
                        diffs.append((i, a, v0, v1))
            V.append(("janus:not-bitwise-reversible:order%d:%s" % (order, {3: "compensated", 4: "compensated-testparticles", 5: "basic-testparticles", 6: "compensated-testparticles-type1"}.get(userflag, "userflag" if userflag else "plain")), "after %d steps forward and %d back %d coordinates differ from the initial bits, e.g. particle %d %s: %r -> %r [%s]" % (
                n, n, len(diffs), diffs[0][0], diffs[0][1], diffs[0][2], diffs[0][3], tag)))
        else:
            pint = sim.ri_janus.p_int
            for i in range(N):
                got = [pint[i].x, pint[i].y, pint[i].z, pint[i].vx, pint[i].vy, pint[i].vz]
                if got != ints[i]:
                    V.append(("janus:p_int-differs", "doubles are restored but the integer state of particle %d is %s instead of %s [%s]" % (i, got, ints[i], tag)))
                    break
        return V, 0.0


SYM = []
for c in ("jacobi", "democraticheliocentric", "whds", "barycentric"):
    SYM.append(("whfast", {"coordinates": c, "safe_mode": 1}))
    SYM.append(("whfast", {"coordinates": c, "safe_mode": 0}))
for t in ("1", "2", "3", "4", "10,4", "8,6,4", "10,6,4", "h8,4,4", "h8,6,4", "h10,6,4"):
    SYM.append(("saba", {"type": t, "safe_mode": 1}))
for p0 in ("lf", "lf4", "lf6", "lf8", "lf4_2", "lf8_6_4"):
    for p1 in ("lf", "lf4", "lf6", "lf8", "lf4_2", "lf8_6_4"):
        SYM.append(("eos", {"phi0": p0, "phi1": p1, "n": 2, "safe_mode": 1}))
SYM.append(("leapfrog", {}))


class Symmetric:
    def __init__(self, rebound):
        self.rebound = rebound

    def build(self, integ, o, sysname):
        rebound = self.rebound
        if integ == "sei":
            sim = rebound.Simulation()
            sim.integrator = "sei"
            sim.ri_sei.OMEGA = 1.0
            sim.G = 1e-3 if o.get("selfgravity") else 0.0
            if o.get("shear"):
                sim.configure_box(40.0)
                sim.boundary = "shear"
                sim.N_ghost_x = sim.N_ghost_y = 1
                sim.gravity = "basic"
            else:
                sim.gravity = "basic" if o.get("selfgravity") else "none"
            sim.softening = 0.1
            pts = [(1.0, 2.0, 0.1, 0.02, -1.4, 0.01), (-3.0, -1.0, -0.2, -0.03, 4.4, 0.0), (0.5, -4.0, 0.05, 0.01, -0.8, -0.02), (4.0, 5.0, 0.0, 0.0, -6.0, 0.01)]
            for k, p in enumerate(pts):
                sim.add(m=1.0 + 0.3 * k, x=p[0], y=p[1], z=p[2], vx=p[3], vy=p[4], vz=p[5])
            sim.dt = 0.02
            return sim, 10.0, 10.0
        if sysname == "flyby":
            # a hyperbolic flyby (the Kepler solver's hyperbolic branches with both signs of dt)
            sim = rebound.Simulation()
            sim.add(m=1.0)
            x = lattice.kep2cart(1.0, -2.0, 1.6, 0.2, 0.3, 0.4, -1.9)
            sim.add(m=1e-6, x=x[0], y=x[1], z=x[2], vx=x[3], vy=x[4], vz=x[5])
            x = lattice.kep2cart(1.0, 3.0, 0.1, 0.05, 1.0, 0.2, 0.5)
            sim.add(m=1e-5, x=x[0], y=x[1], z=x[2], vx=x[3], vy=x[4], vz=x[5])
            sim.move_to_com()
            lattice.apply_options(sim, integ, o)
            sim.dt = 0.35
            return sim, 10.0, 2.0
        cfg = {"integ": integ, "o": o, "sys": sysname, "tp": 0, "dtsign": 1}
        sim, P = lattice.make_sim(rebound, cfg)
        scale = max(abs(p.x) + abs(p.y) + abs(p.z) for p in sim.particles)
        vscale = max(abs(p.vx) + abs(p.vy) + abs(p.vz) for p in sim.particles)
        return sim, scale, vscale

    def __call__(self, task):
        integ, o, sysname, n, first = task
        rb.quiet()
        V = []
        tag = "%s%s %s n=%d first=%+d" % (integ, o, sysname, n, first)
        sim, scale, vscale = self.build(integ, o, sysname)
        sim.dt = first * sim.dt
        N = sim.N
        start = [(p.x, p.y, p.z, p.vx, p.vy, p.vz) for p in sim.particles]
        sim.steps(n)
        sim.synchronize()
        mid = [(p.x, p.y, p.z, p.vx, p.vy, p.vz) for p in sim.particles]
        sim.dt = -sim.dt
        sim.steps(n)
        sim.synchronize()
        end = [(p.x, p.y, p.z, p.vx, p.vy, p.vz) for p in sim.particles]
        worst = 0.0
        moved = max(abs(a - b) for s, m in zip(start, mid) for a, b in zip(s, m))
        if moved == 0:
            V.append(("symmetric:did-not-move", "harness: nothing moved [%s]" % tag))
        for i in range(N):
            for k in range(6):
                sc = scale if k < 3 else vscale
                err = abs(end[i][k] - start[i][k]) / (U * n * sc)
                worst = max(worst, err)
                if not err <= ROUND_K:
                    V.append(("symmetric:not-reversible:%s:%s" % (integ, sysname), "after %d steps forward and %d back particle %d component %d is off by %.3g = %.3g u n scale (allowed %g) [%s]" % (
                        n, n, i, k, abs(end[i][k] - start[i][k]), err, ROUND_K, tag)))
                    return V, worst
        return V, worst


def run(ctx):
    rebound = ctx.use("rel")
    jt = []
    ns = [1, 2, 5, 50] + ([500] if ctx.tier == "thorough" else [])
    for order in (2, 4, 6, 8, 10):
        for scale in (1e-16, 1e-12, 1e-8, (4e-16, 1e-16), (1e-12, 2e-12)):
            for N in (2, 3, 4):
                for n in ns:
                    for which in (0, 1, 2, 3):
                        for first in (1, -1):
                            for userflag in (0, 1, 2):
                                if userflag and (which != 0 or scale != 1e-16):
                                    continue
                                jt.append((order, scale, N, n, which, first, userflag))
    for order in (2, 4, 6, 8, 10):
        for scale in (1e-16, 2.0 ** -56):     # |x| <= 9 must stay inside the int64 grid
            for N in (3, 4):
                for n in (50, 400) + ((2000,) if ctx.tier == "thorough" else ()):
                    for which in (0, 1, 2, 3):
                        for first in (1, -1):
                            jt.append((order, scale, N, n, which, first, 3))     # 3: compensated gravity
                            if scale == 1e-16:
                                for uf in (4, 5, 6):                             # the same with test particles
                                    jt.append((order, scale, N, n, which, first, uf))
    st = []
    for integ, o in SYM:
        for sysname in ("S3", "S4G", "flyby"):
            if sysname == "flyby" and integ in ("eos", "leapfrog"):
                continue
            for n in (1, 5, 50) + ((500,) if ctx.tier == "thorough" else ()):
                for first in (1, -1):
                    st.append((integ, o, sysname, n, first))
    for o in ({}, {"selfgravity": 1}, {"selfgravity": 1, "shear": 1}):
        for n in ((1, 5, 50, 200) if not o.get("shear") else (1, 5, 50)):     # in the shearing box no particle may reach a box face (the truncated image sum is discontinuous there)
            for first in (1, -1):
                st.append(("sei", o, "patch", n, first))
    jt = ctx.shuffled(jt)
    st = ctx.shuffled(st)
    jres = pool.run_tasks(Janus(rebound), jt, timeout=120, chunk=8)
    sres = pool.run_tasks(Symmetric(rebound), st, timeout=120, chunk=8)
    worst = 0.0
    for tasks, res, kind in ((jt, jres, "janus"), (st, sres, "symmetric")):
        for t, r in zip(tasks, res):
            if r[0] != "ok":
                ctx.violation("%s-%s:%s" % (kind, r[0], t[0]), "%s in %s case %s: %s" % (r[0], kind, t, str(r[1])[-500:]), {"kind": kind, "task": list(t)})
                continue
            V, w = r[1]
            worst = max(worst, w)
            for sig, what in V:
                ctx.violation(sig, what, {"kind": kind, "task": list(t)})
    # WHFast512 exists only in the AVX512 build: its part runs in a process of its own (mc/w512.py)
    from .. import w512
    n_w512 = w512.run(ctx, "C10")
    cov = {
        "whfast512_cases": n_w512,
        "evaluations": len(jt) + len(st), "distinct_nontrivial": len(jt) + len(st),
        "rule": "JANUS: order{2,4,6,8,10} x (scale_pos,scale_vel) in {1e-16,1e-12,1e-8 equal; (4e-16,1e-16); (1e-12,2e-12)} x N{2,3,4} x n{1,2,5,50(,500)} x 4 grid-representable initial conditions x first direction x {plain, recalculation flag set by the user before the run, run started from a state reached after modifying a particle and requesting recalculation once}; order x scale{1e-16,2^-56} x N{3,4} x n{50,400(,2000)} with compensated gravity, and at scale 1e-16 also with test particles (compensated or basic with the last body a test particle; compensated with one active body and testparticle_type 1); "
                "symmetric schemes: WHFast x 4 coordinate systems x safe/unsafe, 10 uncorrected SABA types, 36 unprocessed EOS splittings (phi0 x phi1 over lf, lf4, lf6, lf8, lf4_2, lf8_6_4), LEAPFROG on {S3, S4G, hyperbolic flyby} and SEI (free, self-gravitating, shearing box) x n x direction",
        "samples": [list(jt[0]), list(st[0][:1]) + [st[0][1]] + list(st[0][2:])], "observed_max_round_trip_error_in_units_of_u_n_scale": worst, "allowed": ROUND_K, "exhaustive": True,
    }
    return ctx.finish(LEVEL, cov, assumptions=[
        "initial conditions are snapped to fixed points of to_double(to_int(.)) and verified as such by the harness",
        "symmetric schemes: |end-start| <= %g u n scale per coordinate" % ROUND_K,
    ])


def replay(ctx, case):
    rebound = ctx.use("rel")
    t = case["task"]
    if case["kind"] == "janus":
        V, _ = Janus(rebound)(tuple(t))
    else:
        V, _ = Symmetric(rebound)(tuple(t))
    for v in V:
        print(v)
    return 1 if V else 0
