"""C16 -- variational particles are the derivatives of the trajectory.

A  every derivative constructor (12 first-order, 53 second-order) on an element lattice against 40-digit numerical
   differentiation of an independent element-to-Cartesian map
B  every (system, integrator setting, order, varied particle, parameter [pair]) : variational particles after the run against
   Richardson-extrapolated central differences of shadow runs whose initial conditions come from the same independent map
C  rescaling: a variation started with amplitude 9e99 must equal 9e99 x the unit variation once exp(lrescale) is applied
D  MEGNO -> 2 and Lyapunov -> 0 on a regular system over the MEGNO-capable integrator settings
"""
import itertools
import math

import mpmath as mp

from .. import lattice, pool, rb
from .c11 import ref_cart

LEVEL = "exploration"
mp.mp.dps = 40
ORB = ["a", "e", "inc", "Omega", "omega", "f"]
PAL = ["a", "lambda", "h", "k", "ix", "iy"]
CART = ["x", "y", "z", "vx", "vy", "vz"]
VT = ["m", "a", "e", "inc", "omega", "Omega", "f", "k", "h", "lambda", "ix", "iy"]     # the library's canonical order of names


# --------------------------------------------------------------------------------------------- independent maps
def kepler_E(M, e):
    E = M + e * math.sin(M)
    for _ in range(60):
        d = (E - e * math.sin(E) - M) / (1 - e * math.cos(E))
        E -= d
        if abs(d) < 1e-17:
            break
    return E


def orb_to_cart(mu, a, e, inc, Om, om, f):
    return lattice.kep2cart(mu, a, e, inc, Om, om, f)


def orb_to_pal(a, e, inc, Om, om, f):
    E = 2 * math.atan2(math.sqrt(1 - e) * math.sin(f / 2), math.sqrt(1 + e) * math.cos(f / 2))
    M = E - e * math.sin(E)
    pom = Om + om
    return [a, pom + M, e * math.sin(pom), e * math.cos(pom), 2 * math.sin(inc / 2) * math.cos(Om), 2 * math.sin(inc / 2) * math.sin(Om)]


def pal_to_orb(a, lam, h, k, ix, iy):
    e = math.hypot(h, k)
    pom = math.atan2(h, k)
    s = math.hypot(ix, iy) / 2
    inc = 2 * math.asin(s)
    Om = math.atan2(iy, ix)
    M = lam - pom
    E = kepler_E(M, e)
    f = 2 * math.atan2(math.sqrt(1 + e) * math.sin(E / 2), math.sqrt(1 - e) * math.cos(E / 2))
    return [a, e, inc, Om, pom - Om, f]


def mp_pal_to_cart(G, M0, m, a, lam, h, k, ix, iy):
    e = mp.sqrt(h * h + k * k)
    pom = mp.atan2(h, k)
    inc = 2 * mp.asin(mp.sqrt(ix * ix + iy * iy) / 2)
    Om = mp.atan2(iy, ix)
    M = lam - pom
    E = M if e == 0 else mp.findroot(lambda x: x - e * mp.sin(x) - M, M + e * mp.sin(M), tol=mp.mpf(10) ** -36, maxsteps=200)
    f = 2 * mp.atan2(mp.sqrt(1 + e) * mp.sin(E / 2), mp.sqrt(1 - e) * mp.cos(E / 2))
    return ref_cart(G, M0, m, a, e, inc, Om, pom - Om, f)


# --------------------------------------------------------------------------------------------- A constructors
ELEMENT_POINTS = [
    # a, e, inc, Omega, omega, f
    (1.3, 0.2, 0.4, 0.7, 1.1, 0.9),
    (0.7, 0.6, 1.2, -2.0, 2.5, -2.3),
    (2.5, 0.01, 0.02, 3.0, -1.0, 3.0),
    (1.0, 0.3, 2.6, 1.0, 0.3, 1.7),       # retrograde
]


class Constructors:
    def __init__(self, rebound):
        self.rebound = rebound

    def __call__(self, task):
        import ctypes
        rebound = self.rebound
        cl = rebound.clibrebound
        names, pt, G, M0, m, prim = task
        rb.quiet()
        a, e, inc, Om, om, f = pt
        primary = rebound.Particle(m=M0, x=prim[0], y=prim[1], z=prim[2], vx=prim[3], vy=prim[4], vz=prim[5])
        rel = orb_to_cart(G * (M0 + m), a, e, inc, Om, om, f)
        po = rebound.Particle(m=m, x=prim[0] + rel[0], y=prim[1] + rel[1], z=prim[2] + rel[2], vx=prim[3] + rel[3], vy=prim[4] + rel[4], vz=prim[5] + rel[5])
        fn = getattr(cl, "reb_particle_derivative_" + "_".join(names))
        fn.restype = rebound.Particle
        got = fn(ctypes.c_double(G), primary, po)
        gotv = [got.x, got.y, got.z, got.vx, got.vy, got.vz]
        pal = all(n in PAL or n == "m" for n in names) and not all(n in ORB or n == "m" for n in names)
        pal = pal or any(n in ("lambda", "h", "k", "ix", "iy") for n in names)
        base_o = dict(zip(ORB, [mp.mpf(v) for v in pt]))
        base_p = dict(zip(PAL, [mp.mpf(v) for v in orb_to_pal(*pt)]))

        def F(vals, comp):
            kw = dict(base_p if pal else base_o)
            mm = mp.mpf(m)
            for n, v in zip(names, vals):
                if n == "m":
                    mm = v
                else:
                    kw[n] = v
            if pal:
                c = mp_pal_to_cart(G, M0, mm, kw["a"], kw["lambda"], kw["h"], kw["k"], kw["ix"], kw["iy"])
            else:
                c = ref_cart(G, M0, mm, kw["a"], kw["e"], kw["inc"], kw["Omega"], kw["omega"], kw["f"])
            return c[comp]
        x0 = [mp.mpf(m) if n == "m" else (base_p if pal else base_o)[n] for n in names]
        out = []
        want_m = 1.0 if names == ("m",) else 0.0
        if got.m != want_m:
            out.append("mass component %r instead of %r" % (got.m, want_m))
        scale_p = scale_v = mp.mpf(0)
        refs = []
        for comp in range(6):
            if len(names) == 1:
                d = mp.diff(lambda u: F([u], comp), x0[0], h=mp.mpf(10) ** -12)
            elif names[0] == names[1]:
                d = mp.diff(lambda u: F([u, u], comp), x0[0], 2, h=mp.mpf(10) ** -10)
            else:
                d = mp.diff(lambda u, w: F([u, w], comp), (x0[0], x0[1]), (1, 1), h=mp.mpf(10) ** -10)
            refs.append(d)
        scale_p = max(abs(r) for r in refs[:3])
        scale_v = max(abs(r) for r in refs[3:])
        worst = 0.0
        for comp in range(6):
            sc = (scale_p if comp < 3 else scale_v) + mp.mpf(10) ** -30
            err = abs(mp.mpf(gotv[comp]) - refs[comp]) / sc
            worst = max(worst, float(err))
            if not (err <= 1e-9):
                out.append("component %s is %r, numerical differentiation of the element map gives %s" % (CART[comp], gotv[comp], mp.nstr(refs[comp], 17)))
                break
        return out, worst, pal


# --------------------------------------------------------------------------------------------- B trajectories
SYSTEMS = {
    # G, star (m, x,y,z,vx,vy,vz), planets [(m, a,e,inc,Omega,omega,f)], N_active
    "V3": (1.0, (1.0, 0.1, -0.2, 0.05, 0.01, 0.02, -0.005), [(1e-3, 1.0, 0.1, 0.05, 0.3, 1.1, 0.4), (3e-4, 1.9, 0.05, 0.1, 2.0, 0.2, 2.5)], -1),
    "V3h": (1.0, (1.0, 0.0, 0.0, 0.0, 0.0, 0.0, 0.0), [(1e-2, 1.0, 0.15, 0.1, 0.3, 1.1, 0.4), (5e-3, 2.3, 0.1, 0.2, 2.0, 0.2, 2.5)], -1),
    # the same with a softened potential (5th entry): the variational equations have to belong to the same potential
    "V3s": (1.0, (1.0, 0.1, -0.2, 0.05, 0.01, 0.02, -0.005), [(1e-3, 1.0, 0.1, 0.05, 0.3, 1.1, 0.4), (3e-4, 1.9, 0.05, 0.1, 2.0, 0.2, 2.5)], -1, 0.15),
    "V4t": (1.0, (1.0, 0.1, -0.2, 0.05, 0.01, 0.02, -0.005), [(1e-3, 1.0, 0.1, 0.05, 0.3, 1.1, 0.4), (3e-4, 1.9, 0.05, 0.1, 2.0, 0.2, 2.5), (0.0, 3.1, 0.08, 0.07, 4.0, 3.0, 5.0)], 3),
}
STEP = {"a": 2e-3, "e": 2e-3, "inc": 2e-3, "Omega": 2e-3, "omega": 2e-3, "f": 2e-3, "lambda": 2e-3, "h": 2e-3, "k": 2e-3, "ix": 2e-3, "iy": 2e-3,
        "m": 2e-4, "x": 2e-3, "y": 2e-3, "z": 2e-3, "vx": 2e-3, "vy": 2e-3, "vz": 2e-3}


def initial(sysn, shifts):
    """shifts: list of (particle index, kind, name, delta) with kind in {'cart','orb','pal'} -> bodies"""
    G, star, planets, na = SYSTEMS[sysn][:4]
    star = list(star)
    star_out = list(star)
    out = [star_out]
    pend = {}
    for (i, kind, name, d) in shifts:
        pend.setdefault(i, []).append((kind, name, d))
    for kind, name, d in pend.get(0, []):
        # a Cartesian / mass variation of the star at fixed Cartesian state of everything else
        assert kind == "cart"
        star_out[0 if name == "m" else 1 + CART.index(name)] += d
    for idx, pl in enumerate(planets):
        i = idx + 1
        m = pl[0]
        el = list(pl[1:])
        cart_shift = [0.0] * 6
        dm = 0.0
        for kind, name, d in pend.get(i, []):
            if kind == "cart":
                if name == "m":
                    dm += d       # mass at fixed Cartesian state
                else:
                    cart_shift[CART.index(name)] += d
            elif name == "m":
                m += d            # mass at fixed elements
            elif kind == "orb":
                el[ORB.index(name)] += d
            else:
                p = orb_to_pal(*el)
                p[PAL.index(name)] += d
                el = pal_to_orb(*p)
        rel = orb_to_cart(G * (star[0] + m), *el)
        out.append([m + dm] + [star[1 + k] + rel[k] + cart_shift[k] for k in range(6)])
    return G, out, na


def build(rebound, sysn, shifts, integ, o):
    G, bodies, na = initial(sysn, shifts)
    sim = rebound.Simulation()
    sim.G = G
    for b in bodies:
        sim.add(m=b[0], x=b[1], y=b[2], z=b[3], vx=b[4], vy=b[5], vz=b[6])
    if na >= 0:
        sim.N_active = na
    if len(SYSTEMS[sysn]) > 4:
        sim.softening = SYSTEMS[sysn][4]
    lattice.apply_options(sim, integ, o)
    P = 2 * math.pi
    sim.dt = P / 40
    return sim


def advance(sim, integ, nsteps):
    if integ in ("ias15", "bs"):
        sim.integrate(nsteps * 2 * math.pi / 40, exact_finish_time=1)
    else:
        sim.steps(nsteps)
        sim.synchronize()


def state(sim, n):
    return [[getattr(sim.particles[i], c) for c in CART] for i in range(n)]


class Trajectories:
    def __init__(self, rebound, nsteps):
        self.rebound, self.nsteps = rebound, nsteps

    def shadow(self, sysn, shifts, integ, o, n):
        sim = build(self.rebound, sysn, shifts, integ, o)
        if self.com == "hel":
            sim.move_to_hel()
        elif self.com:
            sim.move_to_com()
        advance(sim, integ, self.nsteps)
        return state(sim, n)

    def __call__(self, task):
        sysn, integ, o, order, tp, spec = task[:6]
        self.com = len(task) > 6 and task[6]        # move the system (and its variations) to the centre-of-mass (True) / heliocentric ("hel") frame first
        rb.quiet()
        rebound = self.rebound
        sim = build(rebound, sysn, [], integ, o)
        n = sim.N
        # variational set-up
        def first(sp):
            i, kind, name = sp
            v = sim.add_variation(testparticle=(i if tp else -1))
            if kind == "cart":
                setattr(v.particles[0 if tp else i], name, 1.0)
            else:
                v.vary(i, name)
            return v
        if order == 1:
            v = first(spec[0])
        else:
            v1 = first(spec[0])
            v2 = v1 if spec[1] == spec[0] else first(spec[1])
            v = sim.add_variation(order=2, first_order=v1, first_order_2=v2, testparticle=(spec[0][0] if tp else -1))
            if spec[0][1] != "cart":
                v.vary(spec[0][0], spec[0][2], spec[1][2])
        if self.com == "hel":
            sim.move_to_hel()
        elif self.com:
            sim.move_to_com()
        advance(sim, integ, self.nsteps)
        sc = math.exp(v.lrescale) if v.lrescale else 1.0
        if tp:
            got = {spec[0][0]: [getattr(v.particles[0], c) * sc for c in CART]}
        else:
            got = {i: [getattr(v.particles[i], c) * sc for c in CART] for i in range(n)}
        if integ == "bs" and order == 2:
            # shadow runs at the tolerance of BS are too noisy for second differences: these cases are compared with the IAS15
            # variational particles of the same case (which are themselves compared with finite differences) by the caller
            return None, 0.0, got
        # finite differences of shadow runs
        def fd(delta_scale):
            if order == 1:
                i, kind, name = spec[0]
                d = STEP[name] * delta_scale
                A = self.shadow(sysn, [(i, kind, name, d)], integ, o, n)
                B = self.shadow(sysn, [(i, kind, name, -d)], integ, o, n)
                return [[(A[p][c] - B[p][c]) / (2 * d) for c in range(6)] for p in range(n)]
            (i, k1, n1), (j, k2, n2) = spec
            d1, d2 = STEP[n1] * delta_scale * 0.5, STEP[n2] * delta_scale * 0.5
            if spec[0] == spec[1]:
                A = self.shadow(sysn, [(i, k1, n1, d1)], integ, o, n)
                B = self.shadow(sysn, [(i, k1, n1, -d1)], integ, o, n)
                return [[(A[p][c] - 2 * self.base[p][c] + B[p][c]) / (d1 * d1) for c in range(6)] for p in range(n)]
            PP = self.shadow(sysn, [(i, k1, n1, d1), (j, k2, n2, d2)], integ, o, n)
            PM = self.shadow(sysn, [(i, k1, n1, d1), (j, k2, n2, -d2)], integ, o, n)
            MP = self.shadow(sysn, [(i, k1, n1, -d1), (j, k2, n2, d2)], integ, o, n)
            MM = self.shadow(sysn, [(i, k1, n1, -d1), (j, k2, n2, -d2)], integ, o, n)
            return [[(PP[p][c] - PM[p][c] - MP[p][c] + MM[p][c]) / (4 * d1 * d2) for c in range(6)] for p in range(n)]
        self.base = self.shadow(sysn, [], integ, o, n)
        # derivatives of order k grow like (n t)^k: the parameter step shrinks with the horizon
        ds = 92.0 / self.nsteps
        D1 = fd(ds)
        D2 = fd(0.5 * ds)
        ref = [[(4 * D2[p][c] - D1[p][c]) / 3 for c in range(6)] for p in range(n)]
        unc = [[abs(D2[p][c] - D1[p][c]) / 3 for c in range(6)] for p in range(n)]      # size of the extrapolated term
        sp = max(abs(ref[p][c]) for p in range(n) for c in range(3))
        sv = max(abs(ref[p][c]) for p in range(n) for c in range(3, 6))
        worst = 0.0
        bad = None
        for p, g in got.items():
            for c in range(6):
                s_ = (sp if c < 3 else sv) + 1e-300
                err = abs(g[c] - ref[p][c])
                rel = err / s_
                allow = self.tol(integ, order) * (self.nsteps / 92.0) ** 2 + 0.05 * unc[p][c] / s_
                if rel / allow > worst:
                    worst = rel / allow
                    if not (rel <= allow):
                        bad = "variational particle %d.%s = %.12g, finite differences of shadow runs give %.12g (difference %.3g of the largest component, allowed %.3g)" % (p, CART[c], g[c], ref[p][c], rel, allow)
        return bad, worst, got

    @staticmethod
    def tol(integ, order):
        if order == 1:
            return {"bs": 2e-6}.get(integ, 3e-7)
        return {"bs": 1e-4}.get(integ, 1e-4)


# --------------------------------------------------------------------------------------------- A' vary() with a primary
class VaryPrimary:
    """Variation.vary(index, name[, name2], primary=...) for a moon whose elements refer to its planet: the variational particle must be
    the derivative of the particle that Particle(primary=planet, elements) builds (that element map itself is C11's subject)"""
    ORB = ("a", "e", "inc", "Omega", "omega", "f")
    PAL = ("a", "lambda", "h", "k", "ix", "iy")

    def __init__(self, rebound):
        self.rebound = rebound

    def system(self):
        sim = self.rebound.Simulation()
        sim.add(m=1.0, x=0.1, y=-0.2, z=0.05, vx=0.01, vy=0.02, vz=-0.005)
        sim.add(m=1e-2, a=1.0, e=0.1, inc=0.05, Omega=0.3, omega=1.1, f=0.4)
        return sim

    def moon(self, sim, kind, vals, m):
        if kind == "orb":
            return self.rebound.Particle(simulation=sim, primary=sim.particles[1], m=m, **dict(zip(self.ORB, vals)))
        kw = dict(zip(self.PAL, vals))
        kw["l"] = kw.pop("lambda")
        return self.rebound.Particle(simulation=sim, primary=sim.particles[1], m=m, **kw)

    def __call__(self, task):
        kind, n1, n2, tp = task
        rb.quiet()
        names = self.ORB if kind == "orb" else self.PAL
        base = [0.04, 0.2, 0.3, 0.7, 1.9, 0.6] if kind == "orb" else [0.04, 2.2, 0.12, -0.07, 0.2, 0.1]
        m0 = 1e-5

        def cart(d1, d2):
            sim = self.system()
            vals = list(base)
            m = m0
            for nm, d in ((n1, d1), (n2, d2)):
                if nm is None or d == 0.0:
                    continue
                if nm == "m":
                    m += d
                else:
                    vals[names.index(nm)] += d
            q = self.moon(sim, kind, vals, m)
            return [q.m, q.x, q.y, q.z, q.vx, q.vy, q.vz]
        sim = self.system()
        sim.add(self.moon(sim, kind, base, m0))
        if n2 is None:
            v = sim.add_variation(testparticle=(2 if tp else -1))
            v.vary(2, n1, primary=sim.particles[1])
        else:
            va = sim.add_variation(testparticle=(2 if tp else -1))
            va.vary(2, n1, primary=sim.particles[1])
            vb = va
            if n2 != n1:
                vb = sim.add_variation(testparticle=(2 if tp else -1))
                vb.vary(2, n2, primary=sim.particles[1])
            v = sim.add_variation(order=2, first_order=va, first_order_2=vb, testparticle=(2 if tp else -1))
            v.vary(2, n1, n2, primary=sim.particles[1])
        q = v.particles[0 if tp else 2]
        got = [q.m, q.x, q.y, q.z, q.vx, q.vy, q.vz]

        def step(nm):
            return 1e-6 if nm == "m" else (2e-4 if nm == "a" else 1e-3)

        def fd(sc):
            h1 = step(n1) * sc
            if n2 is None:
                A, B = cart(h1, 0), cart(-h1, 0)
                return [(a - b) / (2 * h1) for a, b in zip(A, B)]
            h2 = step(n2) * sc
            if n1 == n2:
                A, C, B = cart(h1, 0), cart(0, 0), cart(-h1, 0)
                return [(a - 2 * c + b) / (h1 * h1) for a, b, c in zip(A, B, C)]
            PP, PM, MP, MM = cart(h1, h2), cart(h1, -h2), cart(-h1, h2), cart(-h1, -h2)
            return [(a - b - c + d) / (4 * h1 * h2) for a, b, c, d in zip(PP, PM, MP, MM)]
        D1, D2 = fd(1.0), fd(0.5)
        ref = [(4 * y - x) / 3 for x, y in zip(D1, D2)]
        sp = max(abs(x) for x in ref[1:4]) + 1e-300
        sv = max(abs(x) for x in ref[4:7]) + 1e-300
        tol = 1e-6 if n2 is None else 2e-4
        c0 = cart(0, 0)
        hmin = 0.5 * min(step(n1), step(n2) if n2 else step(n1))
        for c in range(7):
            s_ = 1.0 if c == 0 else (sp if c < 4 else sv)
            # rounding noise of the difference quotient itself (a second derivative may be exactly zero, e.g. d2x/da2)
            noise = 256 * 2.2e-16 * (abs(c0[c]) + 1e-300) / (hmin if n2 is None else hmin * hmin)
            if not (abs(got[c] - ref[c]) <= tol * s_ + 0.05 * abs(D2[c] - D1[c]) / 3 + noise):
                return "vary(2, %s%s, primary=planet)%s: variational particle component %s is %.12g, differentiating Particle(primary=planet, ...) gives %.12g" % (
                    n1, "" if n2 is None else ", " + n2, " on a test-particle variation" if tp else "", (["m"] + CART)[c], got[c], ref[c])
        # the other particles of a full set stay untouched
        if not tp:
            for i in (0, 1):
                w = v.particles[i]
                if any(getattr(w, c) != 0.0 for c in ["m"] + CART):
                    return "vary(2, %s, primary=planet) also changed variational particle %d" % (n1, i)
        return None


# --------------------------------------------------------------------------------------------- C rescaling
class Rescale:
    def __init__(self, rebound):
        self.rebound = rebound

    def __call__(self, task):
        integ, o, comp, nsteps = task
        rb.quiet()
        res = []
        for amp in (1.0, 9e99):
            sim = build(self.rebound, "V3", [], integ, o)
            v = sim.add_variation()
            setattr(v.particles[1], comp, amp)
            advance(sim, integ, nsteps)
            lr = v.lrescale
            res.append(([[getattr(v.particles[i], c) for c in CART] for i in range(3)], lr))
        (unit, lr0), (big, lr1) = res
        out = []
        if lr0 != 0.0:
            out.append("unit variation was rescaled (lrescale %r)" % lr0)
        keep = o.get("keep_unsynchronized", 0)
        if keep and lr1 == 0.0:
            pass      # documented: rescaling is refused (with a warning) while WHFast is kept unsynchronized; the variation simply stays large
        elif lr1 <= 0.0:
            out.append("variation started at 9e99 was never rescaled (lrescale %r): the test did not reach the mechanism" % lr1)
        if lr1 > 2000.0:
            out.append("lrescale = %r after %d steps: a variation of size 9e99 growing by a few per cent per step needs one or two rescalings of 230.26" % (lr1, nsteps))
        if out:
            return out
        f = math.exp(lr1 - math.log(9e99)) if lr1 else 1.0 / 9e99
        sp = max(abs(unit[i][c]) for i in range(3) for c in range(3))
        sv = max(abs(unit[i][c]) for i in range(3) for c in range(3, 6))
        worst = 0.0
        for i in range(3):
            for c in range(6):
                err = abs(big[i][c] * f - unit[i][c]) / (sp if c < 3 else sv)
                worst = max(worst, err)
        tol = {"bs": 1e-5, "ias15": 1e-9}.get(integ, 1e-9)
        if worst > tol and not out:
            out.append("exp(lrescale) x variation / 9e99 differs from the unit variation by %.3g of its size (allowed %.3g); lrescale %r" % (worst, tol, lr1))
        return out


# --------------------------------------------------------------------------------------------- D MEGNO
class Megno:
    def __init__(self, rebound):
        self.rebound = rebound

    def __call__(self, task):
        integ, o, norb = task[:3]
        extra = task[3] if len(task) > 3 else None      # a further, unrelated variation added before / after init_megno()
        rb.quiet()
        sim = build(self.rebound, "V3", [], integ, o)
        if extra == "before":
            sim.add_variation().particles[1].x = 1e-3
        if extra == "t0":
            sim.t = 50 * 2 * math.pi        # MEGNO started on a simulation whose clock does not read zero
        sim.init_megno(seed=7)
        if extra == "after":
            sim.add_variation().particles[2].vy = 1e-3
        if integ == "ias15":
            sim.integrate(sim.t + norb * 2 * math.pi, exact_finish_time=0)
        else:
            sim.steps(int(norb * 40))
        return sim.megno(), sim.lyapunov()


def run(ctx):
    rebound = ctx.use("rel")
    quick = ctx.tier == "quick"
    # ---- A
    firsts = [("m",)] + [(n,) for n in ORB] + [(n,) for n in PAL[1:]]
    def canon(a, b):
        return (a, b) if VT.index(a) <= VT.index(b) else (b, a)
    seconds = sorted({canon(a, b) for a in ["m"] + ORB for b in ["m"] + ORB} | {canon(a, b) for a in ["m"] + PAL for b in ["m"] + PAL})
    cl = rebound.clibrebound
    missing = [s for s in firsts + seconds if not hasattr(cl, "reb_particle_derivative_" + "_".join(s))]
    for s in missing:
        ctx.violation("constructor-missing:%s" % "_".join(s), "the library has no reb_particle_derivative_%s although both parameters are documented as supported" % "_".join(s), {"names": list(s)})
    cons = [s for s in firsts + seconds if s not in missing]
    prims = [(0.0,) * 6, (0.3, -0.2, 0.1, 0.02, -0.01, 0.03)]
    at = [(names, pt, G, M0, m, prim) for names in cons for pt in ELEMENT_POINTS for (G, M0, m) in ((1.0, 1.0, 1e-3), (39.4769, 0.8, 0.05)) for prim in prims]
    if quick:
        at = [t for k, t in enumerate(at) if k % 2 == 0]
    at = ctx.shuffled(at)
    ares = pool.run_tasks(Constructors(rebound), at, timeout=600, chunk=4, progress=lambda d, n: ctx.note("A %d/%d" % (d, n)))
    wA = 0.0
    for t, r in zip(at, ares):
        nm = "_".join(t[0])
        if r[0] != "ok":
            ctx.violation("constructor-%s:%s" % (r[0], nm), "reb_particle_derivative_%s: %s %s" % (nm, r[0], str(r[1])[-300:]), {"names": list(t[0]), "point": list(t[1])})
            continue
        out, w, pal = r[1]
        wA = max(wA, w if not out else 0)
        for msg in out:
            ctx.violation("constructor:%s" % nm, "reb_particle_derivative_%s at (a,e,inc,Omega,omega,f)=%s, G=%g, M=%g, m=%g: %s" % (nm, t[1], t[2], t[3], t[4], msg), {"names": list(t[0]), "point": list(t[1])})
    # ---- B
    wh = [("whfast", dict({"corrector": c}, **s)) for c in (0, 3, 17) for s in lattice.SAFETY]
    integs1 = [("ias15", {}), ("bs", {"eps_rel": 1e-11, "eps_abs": 1e-11})] + wh + [("leapfrog", {})]
    integs2 = [("ias15", {}), ("bs", {"eps_rel": 1e-11, "eps_abs": 1e-11})]
    tasks = []
    for sysn in ("V3", "V3h", "V4t"):
        npl = len(SYSTEMS[sysn][2])
        for integ, o in integs1:
            for i in range(npl + 1):
                specs = [(i, "cart", c) for c in CART + ["m"]]
                if i > 0:
                    specs += [(i, "orb", c) for c in ORB + ["m"]] + [(i, "pal", c) for c in PAL[1:]]
                if quick and sysn == "V3h" and integ == "whfast" and o.get("safe_mode") == 1 and o.get("corrector") == 3:
                    pass
                for sp in specs:
                    if sysn == "V4t" and i == npl and sp[2] == "m" :
                        continue        # the mass of a test particle is not a parameter of the dynamics
                    tasks.append((sysn, integ, o, 1, False, (sp,)))
                    if sysn == "V4t" and i == npl and integ in ("ias15", "bs") and sp[2] != "m":     # (WHFast refuses test-particle variations with an error)
                        tasks.append((sysn, integ, o, 1, True, (sp,)))
        for integ, o in integs2:
            for i in range(1, npl + 1):
                pairs = [((i, "cart", a), (i, "cart", b)) for a, b in itertools.combinations_with_replacement(CART + ["m"], 2)]
                pairs += [((i, "orb", a), (i, "orb", b)) for a, b in itertools.combinations_with_replacement(ORB + ["m"], 2)]
                pairs += [((i, "pal", a), (i, "pal", b)) for a, b in itertools.combinations_with_replacement(PAL + ["m"], 2) if not (a in ("a", "m") and b in ("a", "m"))]
                if i == 1:
                    pairs += [((1, "cart", a), (2, "cart", b)) for a in ("x", "vy", "m") for b in ("y", "vz", "m")] + [((0, "cart", "m"), (1, "cart", "x")), ((0, "cart", "x"), (0, "cart", "vy"))]
                for pr in pairs:
                    if sysn == "V4t" and any(s[0] == npl and s[2] == "m" for s in pr):
                        continue
                    if quick and sysn != "V3" and (hash(str(pr)) % 3):
                        pass
                    tasks.append((sysn, integ, o, 2, False, pr))
                    if sysn == "V4t" and i == npl and pr[0][0] == npl and pr[1][0] == npl:
                        tasks.append((sysn, integ, o, 2, True, pr))
    # softened potential
    for integ, o in integs1:
        for i, nm in ((1, "x"), (2, "vy"), (1, "m"), (0, "x")):
            tasks.append(("V3s", integ, o, 1, False, ((i, "cart", nm),)))
    for integ, o in integs2:
        for pr in (((1, "cart", "x"), (1, "cart", "x")), ((1, "cart", "x"), (2, "cart", "vy")), ((1, "cart", "m"), (2, "cart", "x"))):
            tasks.append(("V3s", integ, o, 2, False, pr))
    # variations carried through move_to_com() (the shift depends on the masses and on the varied coordinates)
    for sysn in ("V3", "V3h"):
        for integ, o in integs2:
            for i in (0, 1, 2):
                for nm in ("m", "x", "vy"):
                    tasks.append((sysn, integ, o, 1, False, ((i, "cart", nm),), True))
                if i > 0:
                    for nm in ("m", "a", "e", "lambda"):
                        tasks.append((sysn, integ, o, 1, False, ((i, "pal" if nm == "lambda" else "orb", nm),), True))
            for pr in (((1, "cart", "m"), (1, "cart", "m")), ((1, "cart", "m"), (1, "cart", "x")), ((1, "orb", "m"), (1, "orb", "a")), ((1, "orb", "a"), (1, "orb", "e")), ((1, "cart", "x"), (2, "cart", "m"))):
                tasks.append((sysn, integ, o, 2, False, pr, True))
            # ... and through move_to_hel() (linear: every variation is shifted by the variation of particle 0)
            for i in (0, 1):
                for nm in ("x", "vy"):
                    tasks.append((sysn, integ, o, 1, False, ((i, "cart", nm),), "hel"))
            tasks.append((sysn, integ, o, 1, False, ((1, "orb", "a"),), "hel"))
            tasks.append((sysn, integ, o, 2, False, ((0, "cart", "x"), (1, "cart", "x")), "hel"))
    if quick:
        # the quick tier keeps every first-order case and every second-order case on V3 and the test-particle system; V3h second order is thorough only
        tasks = [t for t in tasks if not (t[3] == 2 and t[0] == "V3h")]
    tasks = ctx.shuffled(tasks)
    ctx.note("B: %d variational runs" % len(tasks))
    horizons = (92,) if quick else (92, 800)
    nB = 0
    wB = {}
    results = {}
    for nsteps in horizons:
        tres = pool.run_tasks(Trajectories(rebound, nsteps), tasks, timeout=900, chunk=4, progress=lambda d, n: ctx.note("B[%d steps] %d/%d" % (nsteps, d, n)))
        for t, r in zip(tasks, tres):
            sysn, integ, o, order, tp, spec = t[:6]
            what = "+".join("%d.%s%s" % (s[0], s[2], {"cart": "", "orb": "(orbital)", "pal": "(Pal)"}[s[1]]) for s in spec)
            lab = "%s %s%s order %d%s, parameter %s, %d steps" % (sysn, integ, o, order, " test-particle variation" if tp else "", what, nsteps)
            fam = "%s:order%d:%s%s%s" % (integ, order, "+".join(sorted({s[1] for s in spec})), ":testparticle" if tp else "", (":move_to_hel" if t[6] == "hel" else ":move_to_com") if len(t) > 6 and t[6] else "")
            case = {"system": sysn, "integrator": [integ, o], "order": order, "testparticle": tp, "spec": [list(s) for s in spec], "steps": nsteps}
            if r[0] != "ok":
                ctx.violation("trajectory-%s:%s" % (r[0], fam), "%s: %s %s" % (lab, r[0], str(r[1])[-400:]), case)
                continue
            nB += 1
            bad, w, got = r[1]
            results[(sysn, integ, order, tp, spec, nsteps, len(t) > 6 and t[6])] = got
            wB[fam] = max(wB.get(fam, 0), w if not bad else 0)
            if bad:
                ctx.violation("trajectory:%s:%s" % (fam, "+".join(s[2] for s in spec)), "%s: %s" % (lab, bad), case)
        for (sysn, integ, order, tp, spec, ns, comf), got in results.items():
            if integ != "bs" or order != 2 or ns != nsteps:
                continue
            ref = results.get((sysn, "ias15", order, tp, spec, ns, comf))
            if ref is None:
                continue
            sp_ = max(abs(v[c]) for v in ref.values() for c in range(3)) + 1e-300
            sv_ = max(abs(v[c]) for v in ref.values() for c in range(3, 6)) + 1e-300
            d = max(abs(got[p][c] - ref[p][c]) / (sp_ if c < 3 else sv_) for p in got for c in range(6))
            fam = "bs:order2:%s%s" % ("+".join(sorted({s[1] for s in spec})), ":testparticle" if tp else "")
            wB[fam + ":vs-ias15"] = max(wB.get(fam + ":vs-ias15", 0), d / 1e-6)
            if not (d <= 1e-6):
                what = "+".join("%d.%s" % (s[0], s[2]) for s in spec)
                ctx.violation("trajectory:%s:%s" % (fam, "+".join(s[2] for s in spec)), "%s BS order 2%s, parameter %s, %d steps: second-order variational particles differ from those of IAS15 by %.3g of the largest component (allowed 1e-6)" % (
                    sysn, " test-particle variation" if tp else "", what, ns, d), {"system": sysn, "integrator": ["bs", {}], "order": 2, "testparticle": tp, "spec": [list(s) for s in spec], "steps": ns})
    # ---- A' vary() relative to a primary that is not particle 0
    vt = []
    for kind, names in (("orb", ("m",) + VaryPrimary.ORB), ("pal", ("m",) + VaryPrimary.PAL)):
        for tp in (False, True):
            for n1 in names:
                vt.append((kind, n1, None, tp))
            for n1, n2 in itertools.combinations_with_replacement(names, 2):
                if tp and (n1 == "m" or n2 == "m"):
                    continue
                vt.append((kind, n1, n2, tp))
    vres = pool.run_tasks(VaryPrimary(rebound), vt, timeout=120, chunk=8)
    for t, r in zip(vt, vres):
        case = {"vary_primary": list(t)}
        if r[0] != "ok":
            ctx.violation("vary-primary-%s:%s" % (r[0], t[0]), "%s in vary(primary=) case %s: %s" % (r[0], t, str(r[1])[-300:]), case)
        elif r[1]:
            ctx.violation("vary-primary:%s:order%d%s" % (t[0], 1 if t[2] is None else 2, ":testparticle" if t[3] else ""), r[1], case)
    # ---- C
    rt = [(integ, o, comp, 300) for integ, o in [("ias15", {}), ("bs", {"eps_rel": 1e-11, "eps_abs": 1e-11}), ("leapfrog", {})] + wh for comp in ("x", "vy")]
    rres = pool.run_tasks(Rescale(rebound), rt, timeout=600, chunk=1)
    for t, r in zip(rt, rres):
        lab = "%s%s, variation of 1.%s started at 9e99, %d steps" % (t[0], t[1], t[2], t[3])
        if r[0] != "ok":
            ctx.violation("rescale-%s:%s" % (r[0], t[0]), "%s: %s %s" % (lab, r[0], str(r[1])[-300:]), {"rescale": [t[0], t[1], t[2]]})
            continue
        for msg in r[1]:
            ctx.violation("rescale:%s:safe%s" % (t[0], t[1].get("safe_mode", "-")), "%s: %s" % (lab, msg), {"rescale": [t[0], t[1], t[2]]})
    # ---- D
    norb = 300 if quick else 3000
    mt = [(integ, o, norb) for integ, o in [("ias15", {})] + wh]          # MEGNO is documented for IAS15 and WHFast only
    mt += [(integ, o, norb, extra) for integ, o in [("ias15", {})] + wh for extra in ("before", "after")]
    mt += [(integ, o, norb, "t0") for integ, o in [("ias15", {}), ("whfast", {"corrector": 0, "safe_mode": 1})]]
    mres = pool.run_tasks(Megno(rebound), mt, timeout=1800, chunk=1)
    mplain = {(t[0], tuple(sorted(t[1].items()))): r[1] for t, r in zip(mt, mres) if len(t) == 3 and r[0] == "ok"}
    for t, r in zip(mt, mres):
        lab = "%s%s over %d orbits" % t[:3] + (" with a second variation added %s init_megno()" % t[3] if len(t) > 3 else "")
        if r[0] == "ok" and len(t) > 3 and t[3] == "t0":
            if not abs(r[1][0] - 2.0) < (0.15 if quick else 0.05):
                ctx.violation("megno:nonzero-start-time:%s" % t[0], "%s%s over %d orbits, init_megno() called at t = 50 periods: MEGNO = %r on a regular two-planet system (expected 2; %r when started at t=0)" % (
                    t[0], t[1], t[2], r[1][0], (mplain.get((t[0], tuple(sorted(t[1].items())))) or [None])[0]), {"megno": [t[0], t[1], t[3]]})
            continue
        if r[0] == "ok" and len(t) > 3:
            ref = mplain.get((t[0], tuple(sorted(t[1].items()))))
            if ref is not None and not (abs(r[1][0] - ref[0]) <= 1e-9 * abs(ref[0])):
                ctx.violation("megno:second-variation:%s:%s" % (t[0], t[3]), "%s: MEGNO = %r, without the unrelated variation %r" % (lab, r[1][0], ref[0]), {"megno": [t[0], t[1], t[3]]})
            continue
        if r[0] != "ok":
            ctx.violation("megno-%s:%s" % (r[0], t[0]), "%s: %s %s" % (lab, r[0], str(r[1])[-300:]), {"megno": [t[0], t[1]]})
            continue
        Y, ly = r[1]
        if not abs(Y - 2.0) < (0.15 if quick else 0.05):
            ctx.violation("megno:%s" % t[0], "%s: MEGNO = %r on a regular two-planet system (expected 2)" % (lab, Y), {"megno": [t[0], t[1]]})
        if not abs(ly) * 2 * math.pi < (0.02 if quick else 0.004):
            ctx.violation("lyapunov:%s" % t[0], "%s: Lyapunov estimate %r per time unit on a regular system (expected -> 0)" % (lab, ly), {"megno": [t[0], t[1]]})
    ctx.note("worst/allowed: constructors %.3g of 1e-9; trajectories %s" % (wA, {k: round(v, 3) for k, v in sorted(wB.items())}))
    cov = {
        "evaluations": len(at) + nB * 5 + len(rt) * 2 + len(mt),
        "distinct_nontrivial": len(at) + nB + len(rt) + len(mt),
        "vary_primary_cases": len(vt),
        "rule": "A: constructor x element point x (G, masses) x primary state; A': Variation.vary with the planet of a moon as primary x every element (orbital and Pal) and pair x full-set / test-particle variation; B: (system, integrator setting, order, varied particle, parameter or pair, test-particle flag, horizon), each with 4-8 shadow runs; C: rescaling cases; D: MEGNO runs",
        "constructors": len(cons), "constructor_cases": len(at), "trajectory_cases": nB, "rescale_cases": len(rt), "megno_cases": len(mt),
        "worst_over_allowed": {k: round(v, 3) for k, v in sorted(wB.items())}, "exhaustive": True, "samples": [list(map(str, tasks[0]))],
    }
    return ctx.finish(LEVEL, cov, assumptions=[
        "element map and its derivatives: independent 40-digit implementation (classical elements; Pal variables through their definitions), differentiated numerically at 40 digits",
        "trajectory derivatives: Richardson-extrapolated central differences (steps 2e-3 and 1e-3 in the parameter, half of that for second order, scaled by 92/steps) of shadow runs of the same integrator; tolerance 3e-7 (first order), 1e-4 (second order), BS 2e-6 first order; BS second order is compared with IAS15's variational particles to 1e-6; tolerances grow with (steps/92)^2 for the long horizon; plus 5% of the extrapolated term",
        "WHFast/LEAPFROG first order only, IAS15 and BS first and second order; WHFast in Jacobi coordinates with the default kernel (the only combination the library accepts with variations)",
    ])


def replay(ctx, case):
    return run(ctx)
