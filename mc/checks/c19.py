"""C19 -- concurrent simulations do not interfere; served snapshots are consistent.

S  web server: the integration thread is stopped (LD_PRELOAD shim, no source hooks) at every event of its loop -- entry/exit of
   reb_check_exit, reb_simulation_synchronize, reb_simulation_step, the Kepler and centre-of-mass sub-steps, lock/unlock of the
   server mutex -- and a client request is served while it stands there (or, if the server has to wait for the mutex, at the
   first later event at which it gets through). One run per event index: every arrival time at this granularity.
T  threads: (1) every byte of librebound's writable segments before/after a workload covering all integrators (hidden mutable
   globals), (2) every interleaving of the steps of two simulations for all ordered pairs of integrator settings,
   (3) the same workloads in truly concurrent threads under ThreadSanitizer and, free-running, against the sequential bits.
"""
import ctypes
import itertools
import os
import re
import socket
import struct
import subprocess
import threading
import time

from .. import build, lattice, pool, rb

LEVEL = "exploration"
PRELOAD = "c19_shim.c"
NAMES = ["check_exit", "sync", "step", "kepler", "lock", "unlock", "save", "com"]
REALS = ((0, "reb_check_exit"), (1, "reb_simulation_synchronize"), (2, "reb_simulation_step"), (3, "reb_whfast_kepler_step"), (7, "reb_whfast_com_step"))
MUTEX_OFFSET = 48       # offsetof(struct reb_server_data, mutex) on LP64 (checked against DWARF in run())

CONFIGS = [
    ("whfast", {"safe_mode": 0}, 1), ("whfast", {"safe_mode": 0}, 0), ("whfast", {}, 1), ("whfast", {"safe_mode": 0, "corrector": 11}, 1),
    ("whfast", {"safe_mode": 0, "keep_unsynchronized": 1}, 0),      # (with exact_finish_time=1 this mode is a recorded C08 finding) ("whfast", {"coordinates": "democraticheliocentric", "safe_mode": 0}, 1),
    ("saba", {"type": "10,6,4", "safe_mode": 0}, 1), ("mercurius", {"safe_mode": 0}, 1), ("ias15", {}, 1), ("leapfrog", {}, 1), ("eos", {"phi0": "lf4", "phi1": "lf", "n": 2, "safe_mode": 0}, 1),
    ("trace", {}, 1), ("bs", {}, 1), ("janus", {"order": 4}, 0),
]
BAD_REQUESTS = [b"BREW / HTTP/1.1\r\n\r\n", b"GET /nonexistent HTTP/1.1\r\n\r\n", b"GET /keyboard/999 HTTP/1.1\r\n\r\n", b"", b"GET /favicon.ico HTTP/1.1\r\n\r\n",
                b"POST /screenshot HTTP/1.1\r\nContent-Length: 0\r\n\r\n", b"GET\r\n\r\n"]

PAUSE_FLOW = os.environ.get("C19_PAUSE", "1") == "1"


def evname(i):
    return "%s%s" % (NAMES[i // 2], "<" if i % 2 == 0 else ">")


def shim():
    so = [p for p in os.environ.get("LD_PRELOAD", "").split(":") if "c19_shim" in p][0]
    sh = ctypes.CDLL(so)
    sh.shim_get_event.restype = ctypes.c_long
    sh.shim_set_arm.argtypes = [ctypes.c_long]
    sh.shim_get_log.argtypes = [ctypes.c_long]
    sh.shim_set_real.argtypes = [ctypes.c_int, ctypes.c_void_p]
    sh.shim_set_mutex.argtypes = [ctypes.c_void_p]
    sh.shim_get_badclose.restype = ctypes.c_long
    sh.shim_set_watch_close.argtypes = [ctypes.c_int]
    return sh


def particles_bits(sim):
    return [tuple(rb.bits(getattr(sim.particles[i], c)) for c in ("x", "y", "z", "vx", "vy", "vz", "m")) for i in range(sim.N)] + [rb.bits(sim.t)]


def make(rebound, cfg):
    integ, o, eft = cfg
    sim, P = lattice.make_sim(rebound, {"integ": integ, "o": o, "sys": "S3", "tp": 0, "dtsign": 1})
    return sim, 4.5 * sim.dt


def eft_of(cfg):
    return 0 if cfg[0] == "janus" else cfg[2]


class Server:
    """one run = one (configuration, event index at which the request is issued, request)"""
    def __init__(self, rebound):
        self.rebound = rebound
        self.sh = None

    def setup(self):
        if self.sh is None:
            self.sh = shim()
            for pid_, nm in REALS:
                self.sh.shim_set_real(pid_, ctypes.cast(getattr(self.rebound.clibrebound, nm), ctypes.c_void_p))
            if not os.path.exists("rebound.html"):
                open("rebound.html", "a").close()

    def reference(self, cfg):
        """final state without a server; and, per step boundary, the final state reached by a copy taken at that boundary and
        integrated to the end by a new call (what a client that continues a snapshot does)"""
        eft = eft_of(cfg)
        sim, tmax = make(self.rebound, cfg)
        sim.integrate(tmax, exact_finish_time=eft)
        F0 = particles_bits(sim)
        sim, tmax = make(self.rebound, cfg)
        copies = [sim.copy()]
        hb = lambda s: copies.append(s.contents.copy())
        sim.heartbeat = hb
        sim.integrate(tmax, exact_finish_time=eft)
        cont = {}
        for c in copies:
            tb = rb.bits(c.t)
            if c.t < tmax:
                c.integrate(tmax, exact_finish_time=eft)
            else:
                c.synchronize()       # the boundary after the last step
            cont[tb] = particles_bits(c)
        return F0, cont, tmax

    def __call__(self, task):
        ci, n, req, port = task
        pause_flow = (req == b"PAUSE")
        if pause_flow:
            req = b"GET /keyboard/32 HTTP/1.1\r\n\r\n"
        cfg = CONFIGS[ci]
        rb.quiet()
        self.setup()
        sh = self.sh
        rebound = self.rebound
        F0, cont, tmax = self.reference(cfg)
        sim, tmax = make(rebound, cfg)
        for attempt in range(20):
            try:
                sim.start_server(port)
                break
            except Exception:
                port += 1000
        sh.shim_set_mutex(ctypes.addressof(sim._server_data.contents) + MUTEX_OFFSET)
        sh.shim_set_watch_close(1)
        sh.shim_set_arm(n)
        done = [False]
        err = [None]

        def integ_thread():
            sh.shim_register_main()
            try:
                sim.integrate(tmax, exact_finish_time=eft_of(cfg))
            except BaseException as e:     # noqa
                err[0] = repr(e)
            finally:
                sh.shim_unregister()
                done[0] = True
        t = threading.Thread(target=integ_thread)
        t.start()
        t0 = time.time()
        while not sh.shim_get_reached() and not done[0]:
            time.sleep(0.0003)
            if time.time() - t0 > 60:
                break
        resp = [None]
        served_at = None
        preV = []
        if sh.shim_get_reached():
            def do_req():
                try:
                    for attempt in range(200):
                        try:
                            s = socket.create_connection(("127.0.0.1", port), timeout=30)
                            break
                        except ConnectionRefusedError:
                            time.sleep(0.01)
                    if req:
                        s.sendall(req)
                    else:
                        s.shutdown(socket.SHUT_WR)
                    buf = b""
                    while True:
                        d = s.recv(65536)
                        if not d:
                            break
                        buf += d
                    s.close()
                    resp[0] = buf
                except Exception as e:     # noqa
                    resp[0] = b"EXC " + repr(e).encode()
            rt = threading.Thread(target=do_req)
            rt.start()
            cur = n
            t0 = time.time()
            while resp[0] is None:
                sd = sim._server_data.contents
                if (sd.need_copy == 1 and time.time() - t0 > 0.03) or time.time() - t0 > 1.5:
                    # the server waits for the mutex (or does not answer at all): let the integration thread advance by one event
                    cur += 1
                    sh.shim_set_arm(cur)
                    sh.shim_do_release()
                    t0 = time.time()
                    while not sh.shim_get_reached() and not done[0] and resp[0] is None:
                        time.sleep(0.0003)
                        if time.time() - t0 > 60:
                            break
                    if done[0]:
                        break
                    t0 = time.time()
                time.sleep(0.0003)
            rt.join(35)
            served_at = cur
            sh.shim_set_arm(-1)
            sh.shim_do_release()
            if pause_flow:
                self.pause_info = None
                self.pause_flow(sim, port, done, sh, cont, tmax, cfg, preV)
        t.join(120)
        total = sh.shim_get_event()
        log = [evname(sh.shim_get_log(i)) for i in range(min(total, 8000))]
        hung = t.is_alive()
        out = {"total": total, "event": log[n] if n < len(log) else None, "served_at": (log[served_at] if served_at is not None and served_at < len(log) else None),
               "served_index": served_at, "V": list(preV), "hung": hung, "pause": getattr(self, "pause_info", None) if pause_flow else None}
        if hung:
            out["V"].append(("hang", "integrate() did not return"))
            return out
        sim.stop_server()
        nbad = sh.shim_get_badclose()
        sh.shim_set_watch_close(0)
        if nbad:
            out["V"].append(("double-close", "%d close() call(s) on a descriptor that was not open any more while the server handled the request: the server closes its connection twice (fclose(stream), then close(fd)); if another thread opens a file in between, the second close takes that file away from it" % nbad))
        if err[0]:
            out["V"].append(("integrate-raised", "integrate() raised %s" % err[0]))
        F1 = particles_bits(sim)
        if F1 != F0:
            out["V"].append(("trajectory-altered", "the final state differs from the run without a server"))
        if resp[0] is None or n >= total:
            return out
        if req != b"GET /simulation HTTP/1.1\r\n\r\n":
            return out
        if pause_flow:
            return out
        out["t"] = self.check_snapshot(resp[0], port, cont, tmax, cfg, out["V"])
        return out

    def check_snapshot(self, body, port, cont, tmax, cfg, V, prefix=""):
        """the response to GET /simulation must be a loadable snapshot at a step boundary whose continuation equals that of a copy
        taken at that boundary; returns the snapshot's time (None if there is none)"""
        rebound = self.rebound
        k = body.find(b"REBOUND Binary File")        # the snapshot starts with this magic string
        if not body.startswith(b"HTTP/1.1 200") or k < 0:
            V.append((prefix + "no-snapshot", "the response to GET /simulation is not a snapshot: %r" % body[:80]))
            return None
        snap = body[k:]
        fn = "/var/tmp/c19_%d_%d.bin" % (os.getpid(), port)
        open(fn, "wb").write(snap)
        try:
            try:
                s2 = rebound.Simulation(fn)
            except BaseException as e:     # noqa
                V.append((prefix + "snapshot-unreadable", "the served snapshot cannot be loaded: %r" % (e,)))
                return None
        finally:
            os.remove(fn)
        t_snap = s2.t
        tb = rb.bits(s2.t)
        if tb not in cont:
            V.append((prefix + "not-a-step-boundary", "the snapshot is at t=%r, which is not the time of any step boundary of the run" % (s2.t,)))
            return t_snap
        if prefix:
            # a snapshot fetched from a paused run carries the paused status (the browser client shows it as paused, by design):
            # the client that wants to continue it clears that first
            s2._status = -1
        try:
            if s2.t < tmax:
                s2.integrate(tmax, exact_finish_time=eft_of(cfg))
            else:
                s2.synchronize()
        except BaseException as e:     # noqa
            V.append((prefix + "continuation-raised", "continuing from the snapshot raised %r" % (e,)))
            return t_snap
        F2 = particles_bits(s2)
        if F2 != cont[tb]:
            V.append((prefix + "continuation-differs", "continuing from the snapshot (t=%r) to the end of the run differs from continuing a copy taken at that step boundary" % (t_snap,)))
        return t_snap

    def pause_flow(self, sim, port, done, sh, cont, tmax, cfg, V):
        """after the pause key has been served: wait until the run stands in its pause loop, fetch a snapshot, single-step once
        (cursor-down key), fetch again, resume.  The caller then compares the final state with the undisturbed run."""
        def http(reqb):
            try:
                s = socket.create_connection(("127.0.0.1", port), timeout=30)
                s.sendall(reqb)
                buf = b""
                while True:
                    d = s.recv(65536)
                    if not d:
                        break
                    buf += d
                s.close()
                return buf
            except Exception as e:     # noqa
                return b"EXC " + repr(e).encode()

        def wait(cond):
            t0 = time.time()
            while not cond() and not done[0] and time.time() - t0 < 30:
                time.sleep(0.0005)
            return cond()
        PAUSED = -3
        self.pause_info = {"paused": False, "t1": None, "t2": None}
        if not wait(lambda: sim._status == PAUSED):
            if not done[0]:
                V.append(("pause:not-honoured", "the run neither paused nor finished within 30 s after the pause key (status %d)" % sim._status))
                http(b"GET /keyboard/32 HTTP/1.1\r\n\r\n")
            return      # the key arrived during the last step: nothing to pause
        time.sleep(0.003)       # the thread is (or is about to be) in the wait loop of reb_check_exit, holding no lock
        self.pause_info["paused"] = True
        ev0 = sh.shim_get_event()
        t1 = self.check_snapshot(http(b"GET /simulation HTTP/1.1\r\n\r\n"), port, cont, tmax, cfg, V, "paused:")
        self.pause_info["t1"] = t1
        if sh.shim_get_event() != ev0:
            V.append(("pause:moves", "the integration thread passed %d events while paused" % (sh.shim_get_event() - ev0)))
        http(b"GET /keyboard/264 HTTP/1.1\r\n\r\n")
        if wait(lambda: sim._status == PAUSED and sh.shim_get_event() > ev0):
            time.sleep(0.003)
            t2 = self.check_snapshot(http(b"GET /simulation HTTP/1.1\r\n\r\n"), port, cont, tmax, cfg, V, "single-step:")
            self.pause_info["t2"] = t2
            times = sorted(struct.unpack("<d", b)[0] for b in cont)
            if t1 is not None and t2 is not None and t1 in times and t2 in times and times.index(t2) != times.index(t1) + 1:
                V.append(("single-step:not-one-step", "a single-step key moved the paused run from t=%r to t=%r, which is not the next step boundary" % (t1, t2)))
        elif not done[0]:
            V.append(("single-step:not-honoured", "after the single-step key the run did not pause again within 30 s (status %d)" % sim._status))
        if not done[0]:
            http(b"GET /keyboard/32 HTTP/1.1\r\n\r\n")
            # a request line the server cannot parse must not be taken for a repetition of the previous request (the pause key)
            http(b"GET\r\n\r\n")


class HeartbeatWindow:
    """a user heartbeat that changes the simulation for a moment (and puts it back) while a client asks for a snapshot: every
    heartbeat of integrate(), including the one before the first step, has to run under the server's lock"""
    def __init__(self, rebound):
        self.rebound = rebound

    def __call__(self, task):
        ci, which, port = task
        cfg = CONFIGS[ci]
        rb.quiet()
        rebound = self.rebound
        if not os.path.exists("rebound.html"):
            open("rebound.html", "a").close()
        ref, tmax = make(rebound, cfg)
        ref.integrate(tmax, exact_finish_time=eft_of(cfg))
        F0 = particles_bits(ref)
        sim, tmax = make(rebound, cfg)
        for attempt in range(20):
            try:
                sim.start_server(port)
                break
            except Exception:
                port += 1000
        calls = [0]
        resp = [None]
        th = [None]

        def req():
            try:
                s = socket.create_connection(("127.0.0.1", port), timeout=30)
                s.sendall(b"GET /simulation HTTP/1.1\r\n\r\n")
                buf = b""
                while True:
                    d = s.recv(65536)
                    if not d:
                        break
                    buf += d
                s.close()
                resp[0] = buf
            except Exception as e:     # noqa
                resp[0] = b"EXC " + repr(e).encode()

        def hb(simp):
            k = calls[0]
            calls[0] += 1
            if k != which:
                return
            s_ = simp.contents
            x0 = s_._particles[1].x
            s_._particles[1].x = 12345.0
            th[0] = threading.Thread(target=req)
            th[0].start()
            t0 = time.time()
            while resp[0] is None and time.time() - t0 < 0.3:
                time.sleep(0.001)
            s_._particles[1].x = x0
        sim.heartbeat = hb
        V = []
        try:
            sim.integrate(tmax, exact_finish_time=eft_of(cfg))
        except BaseException as e:     # noqa
            V.append(("integrate-raised", "integrate() raised %r" % (e,)))
        if th[0] is not None:
            th[0].join(35)
        sim.stop_server()
        lab = "heartbeat call %d" % which
        if calls[0] <= which:
            return {"V": V, "opened": False}
        if particles_bits(sim) != F0:
            V.append(("trajectory-altered", "the final state differs from the run without a server"))
        body = resp[0] or b""
        k = body.find(b"REBOUND Binary File")
        if not body.startswith(b"HTTP/1.1 200") or k < 0:
            V.append(("no-snapshot", "the response to GET /simulation is not a snapshot: %r" % body[:80]))
            return {"V": V, "opened": True}
        fn = "/var/tmp/c19h_%d_%d.bin" % (os.getpid(), port)
        open(fn, "wb").write(body[k:])
        try:
            s2 = rebound.Simulation(fn)
            if s2.particles[1].x == 12345.0:
                V.append(("inside-heartbeat", "the snapshot served during %s holds the state the heartbeat had put in place for a moment (x_1 = 12345): it was taken while the heartbeat ran" % lab))
        except BaseException as e:     # noqa
            V.append(("snapshot-unreadable", "the served snapshot cannot be loaded: %r" % (e,)))
        finally:
            os.remove(fn)
        return {"V": V, "opened": True}


class QuitIsolation:
    """the quit key sent to simulation A's server while simulation B (no server) integrates in another thread: A stops, B is not
    touched"""
    def __init__(self, rebound):
        self.rebound = rebound

    def __call__(self, task):
        ca, cb, port = task
        rb.quiet()
        rebound = self.rebound
        if not os.path.exists("rebound.html"):
            open("rebound.html", "a").close()
        refB, tmaxB = make(rebound, CONFIGS[cb])
        refB.integrate(tmaxB, exact_finish_time=eft_of(CONFIGS[cb]))
        F0 = particles_bits(refB)
        A, tmaxA = make(rebound, CONFIGS[ca])
        B, tmaxB = make(rebound, CONFIGS[cb])
        for attempt in range(20):
            try:
                A.start_server(port)
                break
            except Exception:
                port += 1000
        sent = threading.Event()
        atB = threading.Event()
        calls = [0]

        def hbB(simp):
            calls[0] += 1
            if calls[0] == 3:
                atB.set()
                sent.wait(10)       # B stands in the middle of its run until the key has been handled
        B.heartbeat = hbB
        calla = [0]
        holdA = threading.Event()

        def hbA(simp):
            calla[0] += 1
            if calla[0] == 2:
                holdA.wait(10)      # A is still running when the key arrives
        A.heartbeat = hbA
        res = {}

        def runit(name, sim, tmax, cfg):
            try:
                sim.integrate(tmax, exact_finish_time=eft_of(cfg))
                res[name] = ("returned", sim._status)
            except BaseException as e:     # noqa
                res[name] = ("raised %s" % type(e).__name__, sim._status)
        ta = threading.Thread(target=runit, args=("A", A, tmaxA, CONFIGS[ca]))
        tb = threading.Thread(target=runit, args=("B", B, tmaxB, CONFIGS[cb]))
        ta.start()
        tb.start()
        atB.wait(10)
        try:
            s_ = socket.create_connection(("127.0.0.1", port), timeout=30)
            s_.sendall(b"GET /keyboard/81 HTTP/1.1\r\n\r\n")
            while s_.recv(65536):
                pass
            s_.close()
        except Exception:
            pass
        sent.set()
        holdA.set()
        ta.join(60)
        tb.join(60)
        A.stop_server()
        V = []
        try:
            ctypes.c_int.in_dll(rebound.clibrebound, "reb_sigint").value = 0       # do not let a set flag leak into the next case
        except Exception:
            pass
        if ta.is_alive() or tb.is_alive():
            return [("hang", "a simulation did not return after the quit key")]
        if res.get("B", ("?", 0))[0] != "returned" or particles_bits(B) != F0:
            V.append(("quit-reaches-other-simulation", "the quit key was sent to the server of simulation A; simulation B (no server, other thread) %s with status %d at t=%r and %s the state of its undisturbed run" % (
                res.get("B", ("?", 0))[0], res.get("B", ("?", 0))[1], B.t, "has" if particles_bits(B) == F0 else "does not have")))
        if res.get("A", ("?", 0))[1] != 5:
            V.append(("quit-not-honoured", "simulation A %s with status %d after the quit key (expected the user-exit status 5)" % res.get("A", ("?", 0))))
        return V


# ------------------------------------------------------------------------------------------------ T threads
T_INTEGS = [("ias15", {}), ("whfast", {}), ("whfast", {"safe_mode": 0, "corrector": 11}), ("whfast", {"safe_mode": 0, "keep_unsynchronized": 1}),
            ("whfast", {"coordinates": "democraticheliocentric"}), ("whfast", {"kernel": "lazy", "corrector": 17}), ("saba", {"safe_mode": 0, "keep_unsynchronized": 1}),
            ("eos", {"phi0": "pmlf4", "phi1": "lf4", "n": 2}), ("mercurius", {}), ("trace", {}), ("bs", {}), ("leapfrog", {}), ("janus", {"order": 4}), ("spheres", {})]


def writable_segments(path):
    """address ranges of the library's .data and .bss in this process (the GOT/PLT, which the dynamic linker fills lazily, and
    relocation-only sections are not program state)"""
    base = None
    for ln in open("/proc/self/maps").read().splitlines():
        f = ln.split()
        if len(f) >= 6 and f[5] == path:
            base = int(f[0].split("-")[0], 16)
            break
    out = subprocess.run(["readelf", "-S", "-W", path], stdout=subprocess.PIPE).stdout.decode()
    segs = []
    for ln in out.splitlines():
        m = re.match(r"\s*\[\s*\d+\]\s+(\.data|\.bss)\s+\S+\s+([0-9a-f]+)\s+[0-9a-f]+\s+([0-9a-f]+)", ln)
        if m:
            a, n = int(m.group(2), 16), int(m.group(3), 16)
            segs.append((base + a, base + a + n))
    return base, segs


class GlobalsAudit:
    def __init__(self, rebound, libdir):
        self.rebound, self.libdir = rebound, libdir

    def __call__(self, task):
        rebound = self.rebound
        rb.quiet()
        path = rebound.clibrebound._name
        changed_final = None
        for pass_ in range(1):
            base, segs = writable_segments(os.path.realpath(path))
            before = [ctypes.string_at(a, b - a) for a, b in segs]
            for integ, o in T_INTEGS:
                if integ == "spheres":
                    continue
                sim, P = lattice.make_sim(rebound, {"integ": integ, "o": o, "sys": "S3", "tp": 0, "dtsign": 1})
                if integ == "janus":
                    sim.exact_finish_time = 0
                sim.integrate(5 * sim.dt)
                c = sim.copy()
                fn = "/var/tmp/c19g_%d.bin" % os.getpid()
                c.save_to_file(fn, delete_file=True)
                l = rebound.Simulation(fn)
                os.remove(fn)
                l.integrate(9 * sim.dt)
                l.synchronize()
                l.energy()
                l.move_to_com()
                l.orbits()
                del l, c, sim
            s = rebound.Simulation()
            s.add(m=1)
            s.add(m=1e-3, a=1)
            s.init_megno(seed=3)
            s.integrate(3)
            s.collision = "direct"
            s.collision_resolve = "merge"
            s.add(m=1e-3, a=1.001, r=0.01)
            s.particles[1].r = 0.01
            s.integrate(4)
            del s
            after = [ctypes.string_at(a, b - a) for a, b in segs]
            changed = []
            for (a, b), x, y in zip(segs, before, after):
                if x != y:
                    for off in range(0, len(x), 8):
                        if x[off:off + 8] != y[off:off + 8]:
                            changed.append(a + off - base)
            changed_final = changed
        return changed_final, base


class Interleave:
    """all interleavings of k steps of simulation A with k steps of simulation B in one thread, against A and B alone"""
    def __init__(self, rebound, k):
        self.rebound, self.k = rebound, k

    def one(self, cfg, variant):
        integ, o = cfg
        if integ == "spheres":
            # overlapping hard spheres in a periodic box: several collisions per step, resolved in an order drawn from the
            # simulation's own random seed
            import random
            rng = random.Random(77 + variant)
            sim = self.rebound.Simulation()
            sim.integrator = "leapfrog"
            sim.gravity = "none"
            sim.configure_box(10.0)
            sim.boundary = "periodic"
            sim.collision = "direct"
            sim.collision_resolve = "hardsphere"
            sim.dt = 0.05
            sim.rand_seed = 4242 + variant
            for i in range(40):
                sim.add(m=1.0, r=0.6, x=rng.uniform(-4.5, 4.5), y=rng.uniform(-4.5, 4.5), z=rng.uniform(-1, 1), vx=rng.uniform(-1, 1), vy=rng.uniform(-1, 1), vz=rng.uniform(-0.2, 0.2))
            return sim
        sim, P = lattice.make_sim(self.rebound, {"integ": integ, "o": o, "sys": "S3" if variant == 0 else "S4G", "tp": 0, "dtsign": 1})
        return sim

    def __call__(self, task):
        ia, ib = task
        rb.quiet()
        k = self.k
        A = self.one(T_INTEGS[ia], 0)
        A.steps(k)
        A.synchronize()
        refA = particles_bits(A)
        B = self.one(T_INTEGS[ib], 1)
        B.steps(k)
        B.synchronize()
        refB = particles_bits(B)
        bad = []
        n = 0
        for pos in itertools.combinations(range(2 * k), k):
            A = self.one(T_INTEGS[ia], 0)
            B = self.one(T_INTEGS[ib], 1)
            for j in range(2 * k):
                (A if j in pos else B).steps(1)
            A.synchronize()
            B.synchronize()
            n += 1
            if particles_bits(A) != refA or particles_bits(B) != refB:
                bad.append("".join("A" if j in pos else "B" for j in range(2 * k)))
        return bad, n


def run(ctx):
    rebound = ctx.use("rel")
    libdir = os.path.dirname(rebound.clibrebound._name)
    quick = ctx.tier == "quick"
    # layout assumption of the shim controller
    try:
        from .. import dwarf
        obj = os.path.join(build.build("dbg"), "obj", "server.o")
        tot, leaves = dwarf.layout(obj, "struct reb_server_data")
        off = [m for m in leaves if m["path"] == "mutex" or m["path"].startswith("mutex.")][0]["off"]
        if off != MUTEX_OFFSET:
            ctx.violation("harness:mutex-offset", "offsetof(reb_server_data, mutex) is %d, the controller assumes %d" % (off, MUTEX_OFFSET), {})
    except Exception as e:     # noqa
        ctx.note("could not cross-check the mutex offset against DWARF: %r" % (e,))
    # the shim's wrappers need the addresses of the real functions before anything runs (inherited by the forked workers)
    sh = shim()
    for pid_, nm in REALS:
        sh.shim_set_real(pid_, ctypes.cast(getattr(rebound.clibrebound, nm), ctypes.c_void_p))
    # ---- S
    srv = Server(rebound)
    base_port = 10000 + (os.getpid() % 3) * 7000          # below the range of ephemeral client ports
    dry = pool.run_tasks(srv, [(ci, 10 ** 7, b"", base_port + ci) for ci in range(len(CONFIGS))], timeout=300, chunk=1)
    tasks = []
    totals = {}
    port = base_port + 100
    for ci, r in enumerate(dry):
        if r[0] != "ok" or r[1]["V"]:
            ctx.violation("server-dry-run:%s" % CONFIGS[ci][0], "run with an idle server for %s: %s" % (CONFIGS[ci], r[1] if r[0] != "ok" else r[1]["V"]), {"cfg": ci})
            continue
        totals[ci] = r[1]["total"]
        for n in range(r[1]["total"]):
            tasks.append((ci, n, b"GET /simulation HTTP/1.1\r\n\r\n", port))
            port += 1
        for n in (range(0, r[1]["total"], (3 if quick else 1)) if PAUSE_FLOW else ()):
            tasks.append((ci, n, b"PAUSE", port))
            port += 1
        for n in range(0, r[1]["total"], (7 if quick else 2)):
            for bi, b in enumerate(BAD_REQUESTS):
                if quick and (n // 7 + bi) % 2:
                    continue
                tasks.append((ci, n, b, port))
                port += 1
    tasks = ctx.shuffled(tasks)
    ctx.note("S: %d schedules over %d configurations (%s events each)" % (len(tasks), len(totals), sorted(set(totals.values()))))
    res = pool.run_tasks(srv, tasks, timeout=300, chunk=2, progress=lambda d, n: ctx.note("S %d/%d" % (d, n)))
    served = {}
    npause = [0, 0, 0]
    for t, r in zip(tasks, res):
        ci, n, req, _ = t
        cfg = CONFIGS[ci]
        case = {"cfg": [cfg[0], cfg[1], cfg[2]], "event": n, "request": req.decode("latin1")}
        lab = "%s%s exact_finish_time=%d, request %r issued at event %d" % (cfg[0], cfg[1], cfg[2], req[:30], n)
        if r[0] != "ok":
            ctx.violation("server-%s:%s" % (r[0], cfg[0]), "%s: %s %s" % (lab, r[0], str(r[1])[-400:]), case)
            continue
        o = r[1]
        if o.get("pause"):
            npause[0] += 1
            npause[1] += 1 if o["pause"]["paused"] else 0
            npause[2] += 1 if o["pause"]["t2"] is not None else 0
        served[(o["event"], o["served_at"])] = served.get((o["event"], o["served_at"]), 0) + 1
        for sig, what in o["V"]:
            kind = "snapshot" if req.startswith(b"GET /simulation") else ("pause" if req == b"PAUSE" else "bad-request")
            ctx.violation("server:%s:%s:%s:at-%s" % (kind, sig, cfg[0], o["served_at"]), "%s (integration thread at %s, served at %s): %s" % (lab, o["event"], o["served_at"], what), case)
    # ---- S' heartbeats that touch the simulation
    hwt = []
    for ci in range(len(CONFIGS)):
        for which in (0, 1, 2, 4):
            hwt.append((ci, which, port))
            port += 1
    hwres = pool.run_tasks(HeartbeatWindow(rebound), hwt, timeout=300, chunk=1)
    nhw = 0
    for t, r in zip(hwt, hwres):
        cfg = CONFIGS[t[0]]
        case = {"cfg": [cfg[0], cfg[1], cfg[2]], "heartbeat": t[1]}
        lab = "%s%s exact_finish_time=%d, heartbeat call %d changes a particle for a moment while a client asks for a snapshot" % (cfg[0], cfg[1], cfg[2], t[1])
        if r[0] != "ok":
            ctx.violation("heartbeat-window-%s:%s" % (r[0], cfg[0]), "%s: %s %s" % (lab, r[0], str(r[1])[-400:]), case)
            continue
        nhw += 1 if r[1]["opened"] else 0
        for sig, what in r[1]["V"]:
            ctx.violation("server:heartbeat:%s:%s:call-%s" % (sig, cfg[0], "0" if t[1] == 0 else "n"), "%s: %s" % (lab, what), case)
    # ---- S'' the quit key and a second simulation
    qt = []
    for ca, cb in ((2, 2), (0, 7), (7, 8), (5, 2)):
        qt.append((ca, cb, port))
        port += 1
    qres = pool.run_tasks(QuitIsolation(rebound), qt, timeout=300, chunk=1)
    for t, r in zip(qt, qres):
        case = {"quit": [t[0], t[1]]}
        lab = "A=%s%s with a server, B=%s%s without, in two threads" % (CONFIGS[t[0]][0], CONFIGS[t[0]][1], CONFIGS[t[1]][0], CONFIGS[t[1]][1])
        if r[0] != "ok":
            ctx.violation("quit-isolation-%s" % r[0], "%s: %s %s" % (lab, r[0], str(r[1])[-400:]), case)
            continue
        for sig, what in r[1]:
            ctx.violation("server:quit:%s" % sig, "%s: %s" % (lab, what), case)
    # ---- T1
    ga = pool.run_tasks(GlobalsAudit(rebound, libdir), [0], timeout=600, chunk=1)[0]
    nglob = 0
    if ga[0] != "ok":
        ctx.violation("globals-audit-%s" % ga[0], "audit of the writable segments: %s" % str(ga[1])[-400:], {})
    else:
        changed, base = ga[1]
        syms = []
        out = subprocess.run(["nm", "-n", "--defined-only", rebound.clibrebound._name], stdout=subprocess.PIPE).stdout.decode()
        for ln in out.splitlines():
            f = ln.split()
            if len(f) == 3:
                syms.append((int(f[0], 16), f[1], f[2]))
        nglob = sum(1 for s_ in syms if s_[1] in "bBdD")
        names = {}
        for off in changed:
            cand = [s_ for s_ in syms if s_[0] <= off]
            nm_ = cand[-1][2] if cand else "?"
            names.setdefault(nm_, []).append(off)
        for nm_, offs in sorted(names.items()):
            if nm_ in ("reb_sigint",):
                continue
            ctx.violation("hidden-global:%s" % nm_, "librebound changes its global '%s' (%d words at offsets %s...) while simulations run: state shared between all simulations of the process" % (nm_, len(offs), [hex(x) for x in offs[:3]]), {"symbol": nm_})
    # ---- T2
    k = 3 if quick else 4
    pairs = [(a, b) for a in range(len(T_INTEGS)) for b in range(len(T_INTEGS))]
    ires = pool.run_tasks(Interleave(rebound, k), ctx.shuffled(pairs), timeout=600, chunk=2)
    nint = 0
    for t, r in zip(ctx.shuffled(pairs), ires):
        la, lb = "%s%s" % T_INTEGS[t[0]], "%s%s" % T_INTEGS[t[1]]
        if r[0] != "ok":
            ctx.violation("interleave-%s" % r[0], "interleaving %s with %s: %s" % (la, lb, str(r[1])[-300:]), {"pair": list(t)})
            continue
        bad, n = r[1]
        nint += n
        if bad:
            ctx.violation("interleave:%s+%s" % (T_INTEGS[t[0]][0], T_INTEGS[t[1]][0]), "stepping A=%s and B=%s alternately in the orders %s gives other bits than stepping each alone" % (la, lb, bad[:4]), {"pair": list(t), "orders": bad[:10]})
    # ---- T3
    rounds = 3 if quick else 12
    exe = build.build_exe(libdir, "c19_threads.c")
    tmpd = "/var/tmp"
    env0 = dict(os.environ)
    env0.pop("LD_PRELOAD", None)
    seq = subprocess.run([exe, "seq", "1", tmpd], stdout=subprocess.PIPE, stderr=subprocess.PIPE, timeout=600, env=env0)
    want = {}
    for ln in seq.stdout.decode().splitlines():
        f = ln.split()
        if f and f[0] == "RESULT":
            want[int(f[1])] = f[3]
    if seq.returncode != 0 or len(want) < 10:
        ctx.violation("threads:sequential-run", "the sequential reference run of the thread harness failed: rc %d %s" % (seq.returncode, seq.stderr.decode()[-300:]), {})
    nthreadruns = 0
    for rep in range(4 if quick else 20):
        par = subprocess.run([exe, "par", str(rounds), tmpd], stdout=subprocess.PIPE, stderr=subprocess.PIPE, timeout=900, env=env0)
        if par.returncode != 0:
            ctx.violation("threads:concurrent-run", "the concurrent run failed: rc %d %s" % (par.returncode, par.stderr.decode()[-300:]), {})
            break
        for ln in par.stdout.decode().splitlines():
            f = ln.split()
            if f and f[0] == "RESULT":
                nthreadruns += 1
                if want.get(int(f[1])) != f[3]:
                    ctx.violation("threads:bits:workload-%s" % f[1], "workload %s run concurrently with the others gives state hash %s, run alone %s" % (f[1], f[3], want.get(int(f[1]))), {"workload": int(f[1])})
    tsdir = build.build("tsan")
    races = 0
    if tsdir:
        texe = build.build_exe(tsdir, "c19_threads.c", cc="clang", extra=("-fsanitize=thread",))
        env = dict(os.environ)
        env.pop("LD_PRELOAD", None)
        env["TSAN_OPTIONS"] = "halt_on_error=0:report_signal_unsafe=0:exitcode=0"
        ts = subprocess.run([texe, "par", str(2 if quick else 6), tmpd], stdout=subprocess.PIPE, stderr=subprocess.PIPE, timeout=1800, env=env)
        reports = re.split(r"(?=WARNING: ThreadSanitizer)", ts.stderr.decode(errors="replace"))
        for rep in reports:
            if not rep.startswith("WARNING: ThreadSanitizer"):
                continue
            races += 1
            if "Location is global 'reb_sigint'" in rep:
                continue        # the documented process-wide interrupt flag
            first = [ln.strip() for ln in rep.splitlines() if ln.strip().startswith("#0")]
            where = "; ".join(first[:2])
            sig = re.sub(r"\(.*?\)", "", first[0]).strip() if first else "unknown"
            sig = re.sub(r"^#0 ", "", sig)
            sig = re.sub(r":\d+(:\d+)?", "", sig)
            ctx.violation("threads:data-race:%s" % sig.replace(" ", "@"), "ThreadSanitizer: %s [%s]" % (rep.splitlines()[0], where), {"report": rep[:2000]})
    else:
        ctx.note("no ThreadSanitizer build available")
    # two WHFast512 simulations (AVX512 build only) stepped alternately: mc/w512.py
    from .. import w512
    n_w512 = w512.run(ctx, "C19")
    print("")      # the server's own messages on stdout do not end with a newline
    cov = {
        "evaluations": len(tasks) + len(dry) + nint + nthreadruns + 1,
        "distinct_nontrivial": len(tasks) + nint + len(served),
        "rule": "S: one controlled execution per (configuration, event index, request); requests: GET /simulation at every event, bad requests and the pause sequence (pause key at the event, snapshot while paused, single-step key, snapshot, resume) at every 3rd (thorough: every) event; T2: interleavings of two simulations; T3: workload runs in concurrent threads",
        "whfast512_interleavings": n_w512, "schedules": len(tasks), "heartbeat_windows": nhw, "quit_isolation_cases": len(qt), "pause_sequences": npause[0], "pause_sequences_that_paused": npause[1], "pause_sequences_with_single_step": npause[2], "events_per_configuration": totals and sorted(set(totals.values())), "distinct_served_positions": len(served),
        "served_positions": sorted("%s->%s:%d" % (a, b, c) for (a, b), c in served.items())[:60],
        "writable_globals_in_library": nglob, "interleavings": nint, "thread_workload_runs": nthreadruns, "tsan_reports_total": races, "exhaustive": True, "samples": [str(tasks[0][:3])],
    }
    return ctx.finish(LEVEL, cov, assumptions=[
        "granularity of the server exploration: entry and exit of reb_check_exit, reb_simulation_synchronize, reb_simulation_step, reb_whfast_kepler_step, reb_whfast_com_step and lock/unlock of the server mutex in the integration thread (30-110 events per run); within one such interval the server's critical section is not subdivided",
        "one client request per run; the server handles requests one after another, so several clients do not add interleavings with the integration thread",
        "independent simulations: hidden shared state is looked for exhaustively in the library's writable segments and, at step granularity, by all interleavings of two simulations; instruction-level interleavings are covered by ThreadSanitizer's happens-before analysis of free-running threads (a detector, not an enumeration) plus bit comparison",
    ])


def replay(ctx, case):
    if "heartbeat" in case:
        rebound = ctx.use("rel")
        sh = shim()
        for pid_, nm in REALS:
            sh.shim_set_real(pid_, ctypes.cast(getattr(rebound.clibrebound, nm), ctypes.c_void_p))
        ci = [i for i, c in enumerate(CONFIGS) if [c[0], c[1], c[2]] == case["cfg"]][0]
        out = HeartbeatWindow(rebound)((ci, case["heartbeat"], 10000 + (os.getpid() % 3) * 7000 + 60))
        print(out)
        return 1 if out["V"] else 0
    if "event" in case and "cfg" in case:
        # one server schedule: (configuration, event index, request)
        rebound = ctx.use("rel")
        sh = shim()
        for pid_, nm in REALS:
            sh.shim_set_real(pid_, ctypes.cast(getattr(rebound.clibrebound, nm), ctypes.c_void_p))
        ci = [i for i, c in enumerate(CONFIGS) if [c[0], c[1], c[2]] == case["cfg"]][0]
        req = case["request"].encode("latin1")
        t0 = time.time()
        out = Server(rebound)((ci, case["event"], req, 10000 + (os.getpid() % 3) * 7000 + 50))
        print("event %s served at %s, %d events, %.1f s, pause flow: %s" % (out["event"], out["served_at"], out["total"], time.time() - t0, out.get("pause")))
        for v in out["V"]:
            print(v)
        return 1 if out["V"] else 0
    return run(ctx)
