"""C13 -- collisions are detected completely and resolved conservatively.

(A) detection: every placement of N<=4 spheres from a small lattice of positions / velocities / radii patterns,
    under every search mode and with / without a periodic ghost ring; a recording resolver collects the pairs
    handed over, which must contain the harness' own overlapping-and-approaching (line modes: swept-path) set.
(B) resolution: clusters of simultaneous overlaps (pair, chain, triangle, two pairs, unequal radii) x search mode
    x keep_sorted x resolver {merge, hardsphere}, under EVERY processing order of the pending list (all
    permutations reachable by the internal shuffle are produced by choosing rand_seed after simulating the
    shuffle with libc's rand_r), over 1-3 steps.
"""
import ctypes
import itertools
import math

from .. import pool, rb
from ..common import nanmax

LEVEL = "model_checking"
ASAN = True

MODES = ["direct", "line", "tree", "linetree"]
BOX = 8.0
DT = 0.25


def boxsize(bodies):
    return max(BOX, 8. * max(b[7] for b in bodies))


def make(rebound, mode, periodic, bodies, keep_sorted=0, dtsign=1):
    sim = rebound.Simulation()
    if periodic:
        sim.configure_box(boxsize(bodies))
        sim.boundary = "periodic"
        sim.N_ghost_x = sim.N_ghost_y = sim.N_ghost_z = 1
    elif mode in ("tree", "linetree"):
        sim.configure_box(max(BOX * 4, 16. * max(b[7] for b in bodies)))
    sim.integrator = "leapfrog"
    sim.gravity = "none"
    sim.collision = mode
    sim.dt = DT * dtsign
    sim.collision_resolve_keep_sorted = keep_sorted
    for k, b in enumerate(bodies):
        sim.add(m=b[0], x=b[1], y=b[2], z=b[3], vx=b[4], vy=b[5], vz=b[6], r=b[7], hash=k + 1)
    return sim


def images(periodic, L=BOX):
    if not periodic:
        return [(0.0, 0.0, 0.0)]
    return [(i * L, j * L, k * L) for i in (-1, 0, 1) for j in (-1, 0, 1) for k in (-1, 0, 1)]


def expected_pairs(ps, mode, periodic, dt_last, L=BOX):
    """ps: list of (x,y,z,vx,vy,vz,r) AFTER the step. returns (must, maybe): unordered index pairs that must be handed
    over, and those so close to the threshold that either answer is acceptable"""
    must, maybe = set(), set()
    n = len(ps)
    for i in range(n):
        for j in range(i):
            best = None
            for (gx, gy, gz) in images(periodic, L):
                dx = ps[i][0] + gx - ps[j][0]
                dy = ps[i][1] + gy - ps[j][1]
                dz = ps[i][2] + gz - ps[j][2]
                dvx, dvy, dvz = ps[i][3] - ps[j][3], ps[i][4] - ps[j][4], ps[i][5] - ps[j][5]
                rs = ps[i][6] + ps[j][6]
                if mode in ("direct", "tree"):
                    d2 = dx * dx + dy * dy + dz * dz
                    appr = (dvx * dx + dvy * dy + dvz * dz) * (1.0 if dt_last >= 0 else -1.0)      # approaching in the direction the integration runs
                    margin = min(rs * rs - d2, -appr)         # >0: overlapping and approaching
                    scale = rs * rs + abs(appr) + 1e-300
                else:
                    # straight-line paths over the last step
                    x0, y0, z0 = dx - dt_last * dvx, dy - dt_last * dvy, dz - dt_last * dvz
                    v2 = dvx * dvx + dvy * dvy + dvz * dvz
                    dmin2 = min(dx * dx + dy * dy + dz * dz, x0 * x0 + y0 * y0 + z0 * z0)
                    if v2 > 0:
                        tc = (dx * dvx + dy * dvy + dz * dvz) / v2
                        if 0 <= tc / dt_last <= 1:
                            cx, cy, cz = dx - tc * dvx, dy - tc * dvy, dz - tc * dvz
                            dmin2 = min(dmin2, cx * cx + cy * cy + cz * cz)
                    margin = rs * rs - dmin2
                    scale = rs * rs + 1e-300
                if best is None or margin > best[0]:
                    best = (margin, scale)
            if best[0] > 1e-9 * best[1]:
                must.add((j, i))
            elif best[0] > -1e-9 * best[1]:
                maybe.add((j, i))
    return must, maybe


class Detect:
    def __init__(self, rebound):
        self.rebound = rebound

    def __call__(self, task):
        mode, periodic, bodies = task[:3]
        dtsign = task[3] if len(task) > 3 else 1
        rb.quiet()
        rebound = self.rebound
        sim = make(rebound, mode, periodic, bodies, dtsign=dtsign)
        got = []

        def rec(ptr, c):
            got.append((c.p1, c.p2))
            return 0
        sim.collision_resolve = rec
        sim.step()
        ps = [(p.x, p.y, p.z, p.vx, p.vy, p.vz, p.r) for p in sim.particles]
        if sim.N != len(bodies):
            return [("detect:N-changed", "a recording resolver that removes nothing, yet N went %d -> %d [%s periodic=%s %s]" % (len(bodies), sim.N, mode, periodic, bodies))], 0
        # with a tree the array may have been re-ordered: identify by hash
        order = [p.hash.value - 1 for p in sim.particles]
        gotp = set()
        for a, b in got:
            if not (0 <= a < sim.N and 0 <= b < sim.N) or a == b:
                return [("detect:bad-indices", "resolver received indices (%d,%d) with N=%d [%s periodic=%s %s]" % (a, b, sim.N, mode, periodic, bodies))], 0
            ia, ib = order[a], order[b]
            gotp.add((min(ia, ib), max(ia, ib)))
        byorig = [None] * len(bodies)
        for k, o in enumerate(order):
            byorig[o] = ps[k]
        must, maybe = expected_pairs(byorig, mode, periodic, sim.dt_last_done, boxsize(bodies))
        V = []
        miss = must - gotp
        if miss and dtsign < 0 and mode in ("direct", "tree"):
            # is it the forward-time notion of 'approaching' applied to a backward step?  (then exactly the pairs that approach in
            # forward time are handed over)
            fwd_must, fwd_maybe = expected_pairs(byorig, mode, periodic, abs(sim.dt_last_done), boxsize(bodies))
            if fwd_must <= gotp <= (fwd_must | fwd_maybe):
                return [("detect:backward-step:approach-judged-forward:%s" % mode,
                         "dt<0: pair(s) %s overlap and approach each other in the direction of the integration but were not handed to the resolver; handed were %s, the pairs that approach in forward time [%s periodic=%s bodies=%s]" % (
                             sorted(miss), sorted(gotp), mode, periodic, bodies))], len(must)
        if miss:
            kind = "equal-radii" if len(set(b[7] for b in bodies)) == 1 else "unequal-radii"
            V.append(("detect-missed:%s:%s:%s%s" % (mode, "periodic" if periodic else "open", kind, ":backward" if dtsign < 0 else ""),
                      "pair(s) %s overlap while approaching (or their paths crossed) but were not handed to the resolver; handed %s [%s periodic=%s dt=%+g bodies(m,x,y,z,vx,vy,vz,r)=%s]" % (sorted(miss), sorted(gotp), mode, periodic, DT * dtsign, bodies)))
        return V, len(must)


def shuffle_perm(libc, seed, n):
    s = ctypes.c_uint(seed)
    a = list(range(n))
    for i in range(n):
        new = libc.rand_r(ctypes.byref(s)) % n
        a[i], a[new] = a[new], a[i]
    return tuple(a)


class Resolve:
    def __init__(self, rebound):
        self.rebound = rebound
        self.libc = ctypes.CDLL("libc.so.6")
        self.libc.rand_r.restype = ctypes.c_int
        self.seeds = {}

    def seeds_for(self, n, cap):
        """one seed per distinct permutation of n pending entries produced by the library's shuffle"""
        key = (n, cap)
        if key not in self.seeds:
            perms = {}
            want = math.factorial(n)
            s = 1
            while len(perms) < min(want, cap) and s < 400000:
                p = shuffle_perm(self.libc, s, n)
                if p not in perms:
                    perms[p] = s
                s += 1
            self.seeds[key] = (sorted(perms.values()), len(perms) == want)
        return self.seeds[key]

    def totals(self, sim):
        M = 0.0
        P = [0.0, 0.0, 0.0]
        X = [0.0, 0.0, 0.0]
        K = 0.0
        hs = []
        for p in sim.particles:
            if p.y != p.y:
                continue        # flagged for removal
            M += p.m
            for a, (x, v) in enumerate(((p.x, p.vx), (p.y, p.vy), (p.z, p.vz))):
                P[a] += p.m * v
                X[a] += p.m * x
            K += 0.5 * p.m * (p.vx ** 2 + p.vy ** 2 + p.vz ** 2)
            hs.append(p.hash.value)
        return M, P, X, K, hs

    def __call__(self, task):
        name, mode, keep_sorted, resolver, bodies, nsteps, cap = task
        rb.quiet()
        rebound = self.rebound
        V = []
        # dry run: how many entries does the pending list hold in the first step?
        sim = make(rebound, mode, False, bodies, keep_sorted)
        cnt = []

        def rec(ptr, c):
            cnt.append((c.p1, c.p2))
            return 0
        sim.collision_resolve = rec
        sim.step()
        n = len(cnt)
        if n == 0:
            return [("resolve:cluster-not-detected:%s" % mode, "harness: cluster %s produced no pending collision under %s" % (name, mode))], 0, True
        seeds, complete = self.seeds_for(n, cap)
        tag = "%s/%s/keep_sorted=%d/%s" % (name, mode, keep_sorted, resolver)
        outcomes = set()
        for seed in seeds:
            sim = make(rebound, mode, False, bodies, keep_sorted)
            if resolver == "merge":
                sim.collision_resolve = "merge"
            else:
                sim.collision_resolve = "hardsphere"
            M0, P0, X0, K0, h0 = self.totals(sim)
            sim.rand_seed = seed
            for st in range(nsteps):
                tb = self.totals(sim)
                tcur = sim.t
                sim.step()
                if sim._tree_root:
                    sim.update_tree()
                M1, P1, X1, K1, h1 = self.totals(sim)
                bad = [(p.hash.value, c) for p in sim.particles for c in ("x", "z", "vx", "vy", "vz", "m", "r") if getattr(p, c) != getattr(p, c)]
                if bad:
                    V.append(("resolve:nan:%s" % resolver, "particle %d has %s = NaN after step %d, processing seed %d [%s]" % (bad[0][0], bad[0][1], st, seed, tag)))
                    break
                scaleP = sum(abs(b[0]) * (abs(b[4]) + abs(b[5]) + abs(b[6])) for b in bodies) + 1e-300
                if not (abs(M1 - M0) <= 1e-13 * M0):
                    V.append(("resolve:mass:%s" % resolver, "total mass %r -> %r in step %d, processing seed %d [%s]" % (M0, M1, st, seed, tag)))
                    break
                if not (nanmax(abs(a - b) for a, b in zip(P1, P0)) <= 1e-12 * scaleP):
                    V.append(("resolve:momentum:%s" % resolver, "total momentum %s -> %s in step %d, processing seed %d [%s]" % (P0, P1, st, seed, tag)))
                    break
                if len(set(h1)) != len(h1) or not set(h1) <= set(h0):
                    V.append(("resolve:identity:%s" % resolver, "particle hashes %s -> %s (duplicate or foreign) in step %d, seed %d [%s]" % (h0, h1, st, seed, tag)))
                    break
                if resolver == "merge":
                    # centre of mass moves ballistically: X(t+dt) = X(t) + P dt
                    want = [tb[2][a] + tb[1][a] * (sim.t - tcur) for a in range(3)]
                    scaleX = sum(abs(b[0]) * (abs(b[1]) + abs(b[2]) + abs(b[3]) + 1) for b in bodies)
                    if not (nanmax(abs(a - b) for a, b in zip(X1, want)) <= 1e-12 * scaleX):
                        V.append(("resolve:com:merge", "mass-weighted position %s, expected %s after step %d, seed %d [%s]" % (X1, want, st, seed, tag)))
                        break
                    if sim.N != len(h1):
                        V.append(("resolve:N:merge", "N=%d but %d live particles after tree update, step %d seed %d [%s]" % (sim.N, len(h1), st, seed, tag)))
                        break
                else:
                    if len(h1) != len(h0):
                        V.append(("resolve:N:hardsphere", "hard-sphere bounce changed the particle count %d -> %d [%s]" % (len(h0), len(h1), tag)))
                        break
                    if not (abs(K1 - K0) <= 1e-12 * K0):
                        V.append(("resolve:energy:hardsphere", "kinetic energy %r -> %r at restitution 1, step %d, seed %d [%s]" % (K0, K1, st, seed, tag)))
                        break
            outcomes.add((len(self.totals(sim)[4]),))
            if len(bodies) == 2 and resolver == "hardsphere":
                a, b = sim.particles[0], sim.particles[1]
                dx = (a.x - b.x, a.y - b.y, a.z - b.z)
                dv = (a.vx - b.vx, a.vy - b.vy, a.vz - b.vz)
                if sum(x * v for x, v in zip(dx, dv)) < 0 and sum(x * x for x in dx) < (a.r + b.r) ** 2:
                    V.append(("resolve:still-approaching:hardsphere", "after the bounce the pair still overlaps and approaches [%s]" % tag))
            if V:
                break
        return V, len(seeds), complete


class Shear:
    """hard-sphere bounce against the image of a particle across the radial (x) face of a shearing box"""
    def __init__(self, rebound):
        self.rebound = rebound

    def __call__(self, task):
        mode, yoff, vyrel, t0 = task[:4]
        y0 = task[4] if len(task) > 4 else 0.3        # azimuthal position of particle 0 (near +-L/2: the partner is an image in y as well)
        rb.quiet()
        rebound = self.rebound
        L = 8.0
        OM = 1.0
        sim = rebound.Simulation()
        sim.configure_box(L)
        sim.boundary = "shear"
        sim.ri_sei.OMEGA = OM
        sim.N_ghost_x = sim.N_ghost_y = 1
        sim.integrator = "leapfrog"
        sim.gravity = "none"
        sim.collision = mode
        sim.collision_resolve = "hardsphere"
        sim.dt = 1e-3
        if t0 is not None:
            sim.t = t0
        # image of particle 1 across the +x face moves with vy = -1.5*OM*L relative to the box
        vimg = -1.5 * OM * L
        if len(task) > 5:
            # both azimuthal positions are given (each possibly at an edge of the box): the time is chosen such that the image of
            # particle 1 stands at dy=yoff from particle 0 at the end of the step, m box lengths of shear later
            y1, m = task[5]
            t_end = (m * L - (y0 + yoff - y1)) / (-vimg)
            t0 = t_end - sim.dt
            sim.t = t0
        else:
            yshift = math.fmod(vimg * (t0 + sim.dt), L)
            # place particle 1 so that its image (x+L, y+yshift(+-L)) sits at dx=0.4, dy=yoff from particle 0
            y1 = y0 + yoff - yshift
            while y1 > L / 2:
                y1 -= L
            while y1 < -L / 2:
                y1 += L
        sim.add(m=1.0, x=L / 2 - 0.2, y=y0, z=0.0, vx=0.05, vy=0.0, vz=0.0, r=0.3, hash=1)
        sim.add(m=2.0, x=-L / 2 + 0.2, y=y1, z=0.01, vx=-0.05, vy=vyrel - vimg, vz=0.0, r=0.3, hash=2)
        P0 = [sum(p.m * getattr(p, a) for p in sim.particles) for a in ("vx", "vy", "vz")]
        n0 = sim.collisions_log_n
        sim.step()
        P1 = [sum(p.m * getattr(p, a) for p in sim.particles) for a in ("vx", "vy", "vz")]
        V = []
        tag = "shear/%s yoff=%g vyrel=%g t0=%.17g y0=%g y1=%.17g" % (mode, yoff, vyrel, t0, y0, y1)
        if not (nanmax(abs(a - b) for a, b in zip(P0, P1)) <= 1e-12 * 30):
            V.append(("resolve:momentum:hardsphere-shear", "total momentum %s -> %s in a bounce against a sheared image [%s]" % (P0, P1, tag)))
        a, b = sim.particles[0], sim.particles[1]
        if a.hash.value != 1:
            a, b = b, a
        # relative state of particle 0 and the image of particle 1 after the step
        best = None
        for m in (-2, -1, 0, 1, 2):
            yo = math.fmod(vimg * sim.t, L) + m * L
            dx = (b.x + L - a.x, b.y + yo - a.y, b.z - a.z)
            d2 = sum(x * x for x in dx)
            if best is None or d2 < best[0]:
                best = (d2, dx)
        dx = best[1]
        dv = (b.vx - a.vx, b.vy + vimg - a.vy, b.vz - a.vz)
        if best[0] < 0.6 ** 2 * (1 - 1e-9) and sum(x * v for x, v in zip(dx, dv)) < -1e-12:
            V.append(("resolve:still-approaching:hardsphere-shear", "particle and sheared image overlap (d=%.3f) and still approach (dv.dx=%.3g) after the step: the bounce did not happen or was wrong [%s]" % (best[0] ** 0.5, sum(x * v for x, v in zip(dx, dv)), tag)))
        speed = max(abs(getattr(p, c)) for p in sim.particles for c in ("vx", "vy", "vz"))
        if speed > 10 * (abs(vimg) + abs(vyrel) + 1):
            V.append(("resolve:runaway:hardsphere-shear", "speeds up to %.3g after a bounce against a sheared image [%s]" % (speed, tag)))
        return V


class HybridCluster:
    """several touching pairs around a star under the hybrid integrators (which force order-preserving removal) and under IAS15,
    built-in merge resolver, for a list of processing orders: exactly the touching pairs merge, nobody else is touched"""
    def __init__(self, rebound):
        self.rebound = rebound

    def __call__(self, task):
        integ, npairs, keep_sorted, seed, order = task
        rb.quiet()
        rebound = self.rebound
        sim = rebound.Simulation()
        sim.integrator = integ
        sim.collision = "direct"
        sim.collision_resolve = "merge"
        sim.collision_resolve_keep_sorted = keep_sorted
        sim.dt = 0.02
        sim.rand_seed = seed
        m, rad = 1e-5, 1e-3
        sim.add(m=1.0, r=1e-3, hash=1)
        specs = []
        # pairs (touching, approaching) at a = 1, 2, 3 on different sides of the star; single planets in between
        for k in range(npairs):
            a, phi = 1.0 + k, 3.0 * k
            specs.append((10 + 2 * k, a, phi, 0.0, 0.0))
            specs.append((11 + 2 * k, a, phi, 1.5e-3, -0.02))
            specs.append((50 + k, a + 0.5, phi + 2.0, 0.0, 0.0))
        specs = [specs[i] for i in order] if order else specs
        for h, a, phi, dr, dvr in specs:
            v = math.sqrt(1.0 / a)
            d = a + dr
            sim.add(m=m, r=rad, hash=h, x=d * math.cos(phi), y=d * math.sin(phi), vx=-v * math.sin(phi) + dvr * math.cos(phi), vy=v * math.cos(phi) + dvr * math.sin(phi))
        M0 = sum(p.m for p in sim.particles)
        P0 = [sum(p.m * getattr(p, c) for p in sim.particles) for c in ("vx", "vy", "vz")]
        V = []
        tag = "%s, %d touching pairs, keep_sorted=%d, rand_seed=%d, insertion order %s" % (integ, npairs, keep_sorted, seed, order or "as listed")
        try:
            sim.step()
            sim.synchronize()
        except Exception as e:     # noqa
            return [("hybrid-cluster:step-raised:%s" % integ, "step raised %r [%s]" % (e, tag))]
        left = sorted(p.hash.value for p in sim.particles)
        masses = {p.hash.value: p.m for p in sim.particles}
        for k in range(npairs):
            if (50 + k) not in left:
                V.append(("hybrid-cluster:bystander-lost:%s" % integ, "planet %d touched nothing but is gone after the step (left: %s) [%s]" % (50 + k, left, tag)))
            elif masses[50 + k] != m:
                V.append(("hybrid-cluster:bystander-merged:%s" % integ, "planet %d touched nothing but has mass %r afterwards [%s]" % (50 + k, masses[50 + k], tag)))
            pair = [h for h in (10 + 2 * k, 11 + 2 * k) if h in left]
            if len(pair) != 1:
                V.append(("hybrid-cluster:pair-not-merged:%s" % integ, "touching pair (%d,%d): %d of them left after the step (left: %s) [%s]" % (10 + 2 * k, 11 + 2 * k, len(pair), left, tag)))
            elif not (abs(masses[pair[0]] - 2 * m) <= 1e-18):
                V.append(("hybrid-cluster:pair-mass:%s" % integ, "survivor of pair (%d,%d) has mass %r, expected %r [%s]" % (10 + 2 * k, 11 + 2 * k, masses[pair[0]], 2 * m, tag)))
        if 1 not in left or len(left) != len(set(left)):
            V.append(("hybrid-cluster:identity:%s" % integ, "hashes after the step: %s [%s]" % (left, tag)))
        M1 = sum(p.m for p in sim.particles)
        P1 = [sum(p.m * getattr(p, c) for p in sim.particles) for c in ("vx", "vy", "vz")]
        if not (abs(M1 - M0) <= 1e-13 * M0):
            V.append(("hybrid-cluster:mass:%s" % integ, "total mass %r -> %r [%s]" % (M0, M1, tag)))
        if not (nanmax(abs(a - b) for a, b in zip(P0, P1)) <= 1e-11 * m):
            V.append(("hybrid-cluster:momentum:%s" % integ, "total momentum %s -> %s [%s]" % (P0, P1, tag)))
        return V[:3]


# ------------------------------------------------------------------------------------------ spaces
def detect_space(tier):
    """spheres on a coarse lattice; velocities +-; radii patterns"""
    out = []
    R = [(0.3, 0.3, 0.3, 0.3), (0.05, 0.5, 0.05, 0.5), (0.5, 0.05, 0.3, 0.0), (0.0, 0.4, 0.4, 0.1)]
    pos1 = [-0.9, -0.35, 0.0, 0.41, 0.97]
    # pairs along x with all sign combinations of approach
    for ra in R:
        for xa, xb in itertools.combinations(pos1, 2):
            for va, vb in itertools.product((-0.5, 0.0, 0.6), repeat=2):
                out.append([[1.0, xa, 0.01, 0.0, va, 0.0, 0.0, ra[0]], [0.7, xb, -0.02, 0.03, vb, 0.0, 0.0, ra[1]]])
    # triples / quadruples in the plane
    pts = [(-0.5, -0.3), (0.1, 0.25), (0.45, -0.2), (-0.1, 0.6)]
    vel = [(0.4, 0.1), (-0.3, -0.2), (-0.5, 0.3), (0.2, -0.6)]
    for n in (3, 4):
        for ra in R:
            for signs in itertools.product((1, -1), repeat=n):
                b = []
                for k in range(n):
                    b.append([1.0 + 0.5 * k, pts[k][0], pts[k][1], 0.02 * k, signs[k] * vel[k][0], signs[k] * vel[k][1], 0.0, ra[k]])
                out.append(b)
    # pairs that only touch through a periodic image (near opposite faces), incl. big-radius bodies in small deep cells
    for ra in R:
        for off in (0.2, 0.45):
            out.append([[1.0, BOX / 2 - off, 0.1, 0.0, 0.3, 0.0, 0.0, max(ra[0], 0.25)], [1.0, -BOX / 2 + off, 0.12, 0.0, -0.3, 0.0, 0.0, max(ra[1], 0.25)]])
    # two big overlapping bodies each with a close tiny neighbour (deep cells), added in increasing-radius order
    for sep in (1.7, 1.9, 2.3):
        out.append([[1e-3, -3.0, 0.0, 0.0, 0, 0, 0, 0.01], [1e-3, -3.02, 0.01, 0.0, 0, 0, 0, 0.01], [1.0, 0.0, 0.0, 0.0, 0.1, 0, 0, 1.0], [1.0, sep, 0.0, 0.0, -0.1, 0, 0, 1.0],
                    [1e-3, 0.0, 1.02, 0.0, 0, 0, 0, 0.01], [1e-3, sep, -1.02, 0.0, 0, 0, 0, 0.01]])
    # the two largest radii are book-kept at insertion: every insertion order of two big bodies (each with a point-like
    # tracer 0.14 away, which makes their tree cells much smaller than their radii) x radii x separations
    for (R1, R2) in ((9., 10.), (10., 10.), (10., 9.)):
        for f in (0.85, 0.95, 1.02):
            d = f * (R1 + R2)
            four = [[1e-12, -d / 2 + 0.1, 0.6, 0.6, 0.2, 0.1, 0.1, 0.0], [1e-12, d / 2 + 0.1, 0.6, 0.6, 0.0, 0.1, 0.1, 0.0],
                    [1.0, -d / 2, 0.5, 0.5, 0.1, 0, 0, R1], [1.0, d / 2, 0.5, 0.5, -0.1, 0, 0, R2]]
            for perm in itertools.permutations(range(4)):
                out.append([four[k] for k in perm])
    # two fast bodies on crossing paths, each with a slow point-like companion 0.05 away (so both sit in small non-leaf cells far
    # apart): the pair meets only through the swept paths of BOTH bodies
    for speed in (3.1, 11.7, 37.3):            # (values that do not land on cell faces)
        for gap in ((0.47, 0.83) if speed < 20 else (0.21, 0.29)):      # both bodies start inside the periodic box
            d = speed * DT * gap
            for rr in (0.2, 0.05):
                out.append([[1.0, -d, 0.02, 0.0, speed, 0.0, 0.0, rr], [1e-9, -d - 0.05, 0.07, 0.03, 0.0, 0.0, 0.0, 0.0],
                            [1.0, d, -0.02, 0.01, -speed, 0.0, 0.0, rr], [1e-9, d + 0.05, -0.06, 0.0, 0.0, 0.0, 0.0, 0.0]])
                out.append([[1.0, -d, 0.02, 0.0, speed, 0.0, 0.0, rr], [1e-9, -d - 0.05, 0.07, 0.03, 0.0, 0.0, 0.0, 0.0],
                            [1.0, 0.03, d, 0.01, 0.0, -speed, 0.0, rr], [1e-9, 0.0, d + 0.05, 0.0, 0.0, 0.0, 0.0, 0.0]])
    # the same with companions that fly along (3 radii away, touching nobody): at the end of the step both bodies of the pair sit
    # in small non-leaf cells, so the cell-opening radius of the tree walk decides
    for speed in (1.3, 7.7, 23.1):
        for rr in (0.3, 0.11):
            for gap in (0.45, 0.12):
              d = speed * DT * gap
              out.append([[1.0, -d, 0.24, 0.21, speed, 0.0, 0.0, rr], [1.0, -d, 0.24 + 3 * rr, 0.21, speed, 0.0, 0.0, rr],
                        [1.0, d, 0.15, 0.15, -speed, 0.0, 0.0, rr], [1.0, d, 0.15, 0.15 + 3 * rr, -speed, 0.0, 0.0, rr]])
    return out


CLUSTERS = {
    "pair": [[1.0, -0.2, 0, 0, 0.5, 0, 0, 0.3], [2.0, 0.2, 0.01, 0, -0.5, 0, 0, 0.3]],
    "pair-unequal": [[1.0, -0.2, 0, 0, 0.5, 0.1, 0, 0.05], [3.0, 0.2, 0.01, 0, -0.4, 0, 0, 0.5]],
    "chain": [[1.0, -0.5, 0, 0, 0.5, 0, 0, 0.3], [2.0, 0.0, 0.01, 0, 0.0, 0, 0, 0.3], [1.5, 0.5, -0.01, 0, -0.5, 0, 0, 0.3]],
    "triangle": [[1.0, -0.2, -0.1, 0, 0.4, 0.2, 0, 0.3], [2.0, 0.2, -0.1, 0, -0.4, 0.2, 0, 0.3], [1.5, 0.0, 0.25, 0, 0.0, -0.5, 0, 0.3]],
    "two-pairs": [[1.0, -2.2, 0, 0, 0.5, 0, 0, 0.3], [2.0, -1.8, 0.01, 0, -0.5, 0, 0, 0.3], [1.5, 1.8, 0, 0, 0.5, 0, 0, 0.3], [0.5, 2.2, 0.02, 0, -0.5, 0, 0, 0.3]],
    "cross-pairs": [[1.0, -0.2, 2, 0, 0.5, 0, 0, 0.3], [2.0, -0.2, -2, 0.01, 0.5, 0, 0, 0.3], [1.5, 0.2, -2, 0, -0.5, 0, 0, 0.3], [0.5, 0.2, 2, 0.02, -0.5, 0, 0, 0.3]],
    "chain4": [[1.0, -0.75, 0, 0, 0.5, 0, 0, 0.3], [2.0, -0.25, 0.01, 0, 0.1, 0, 0, 0.3], [1.5, 0.25, -0.01, 0, -0.1, 0, 0, 0.3], [0.7, 0.75, 0, 0, -0.5, 0, 0, 0.3]],
    "massless-pair": [[0.0, -0.2, 0, 0, 0.5, 0, 0, 0.3], [0.0, 0.2, 0.01, 0, -0.5, 0, 0, 0.3], [1.0, 5.0, 5.0, 0, 0.1, 0, 0, 0.1]],
    "massless-on-massive": [[0.0, -0.2, 0, 0, 0.5, 0, 0, 0.3], [2.0, 0.2, 0.01, 0, -0.5, 0, 0, 0.3], [0.0, 0.25, 0.4, 0, -0.1, -0.5, 0, 0.2]],
    "grow": [[1.0, -0.3, 0, 0, 0.5, 0, 0, 0.4], [1.0, 0.3, 0.01, 0, -0.5, 0, 0, 0.4], [1.0, 0.0, 0.93, 0, 0.0, -0.3, 0, 0.1], [1e-3, 3.0, 3.0, 0, 0, 0, 0, 0.01], [1e-3, 3.02, 3.0, 0, 0, 0, 0, 0.01]],
}


def run(ctx):
    rebound = ctx.use("asan")
    # ---- (A)
    space = detect_space(ctx.tier)
    dt = []
    for mode in MODES:
        for periodic in (False, True):
            for b in space:
                dt.append((mode, periodic, b))
                # backward steps: the swept-path criterion does not depend on the direction of time; 'approaching' does
                dt.append((mode, periodic, b, -1))
    dt = ctx.shuffled(dt)
    res = pool.run_tasks(Detect(rebound), dt, timeout=30, progress=lambda d, n: ctx.note("detection cases %d/%d" % (d, n)))
    nontrivial = 0
    from .. import common
    for t, r in zip(dt, res):
        if r[0] != "ok":
            frag = common.classify_crash(r[1])[0] if r[0] == "crash" else r[0]
            ctx.violation("detect-%s:%s:%s" % (r[0], t[0], frag), "%s in detection case %s: %s" % (r[0], t, str(r[1])[-500:]), {"kind": "detect", "task": list(t)})
            continue
        V, nm = r[1]
        if nm:
            nontrivial += 1
        for sig, what in V:
            ctx.violation(sig, what, {"kind": "detect", "task": list(t)})
    # ---- (B)
    rt = []
    cap = 720 if ctx.tier == "quick" else 5040
    for name, bodies in CLUSTERS.items():
        for mode in ("direct", "tree", "line", "linetree"):
            for ks in (0, 1):
                if ks and mode in ("tree", "linetree"):
                    continue    # keep_sorted removal is refused with a tree
                for resolver in ("merge", "hardsphere"):
                    rt.append((name, mode, ks, resolver, bodies, 3, cap))
    rt = ctx.shuffled(rt)
    rres = pool.run_tasks(Resolve(rebound), rt, timeout=300, chunk=1)
    orders = 0
    capped = []
    for t, r in zip(rt, rres):
        case = {"kind": "resolve", "task": list(t)}
        if r[0] != "ok":
            frag = common.classify_crash(r[1])[0] if r[0] == "crash" else r[0]
            ctx.violation("resolve-%s:%s:%s" % (r[0], t[1], frag), "%s in resolution case %s: %s" % (r[0], t[:4], str(r[1])[-600:]), case)
            continue
        V, ns, complete = r[1]
        orders += ns
        if not complete:
            capped.append("%s/%s" % (t[0], t[1]))
        for sig, what in V:
            ctx.violation(sig, what, case)
    st = [(mode, yoff, vyrel, t0) for mode in ("direct", "tree") for yoff in (-0.3, -0.1, 0.1, 0.3) for vyrel in (-0.5, 0.0, 0.5) for t0 in (0.0, 0.013, 0.37)]
    # the whole cycle of the shear offset (it advances by 1.5 box lengths per time unit) x azimuthal positions incl. both edges of the box
    st += [(mode, yoff, vyrel, k / 24.0 + 0.001, y0) for mode in ("direct", "tree") for yoff in (-0.3, 0.1) for vyrel in (-0.5, 0.5) for k in range(0, 49) for y0 in (0.3, 3.85, -3.85)]
    # both particles at chosen azimuthal positions (every combination of centre / near an edge / at an edge), 1..3 box lengths of shear
    YS = (0.3, 3.7, -3.7, 3.95, -3.95)
    st += [(mode, yoff, vyrel, None, y0, (y1, m)) for mode in ("direct", "tree") for yoff in (-0.3, 0.1, 0.3) for vyrel in (-0.5, 0.5) for y0 in YS for y1 in YS for m in (2, 3, 4)]
    sres = pool.run_tasks(Shear(rebound), st, timeout=30)
    for t, r in zip(st, sres):
        if r[0] != "ok":
            ctx.violation("shear-%s:%s" % (r[0], t[0]), "%s in shear case %s: %s" % (r[0], t, str(r[1])[-500:]), {"kind": "shear", "task": list(t)})
            continue
        for sig, what in r[1]:
            ctx.violation(sig, what, {"kind": "shear", "task": list(t)})
    # several mergers in one step under the hybrid integrators
    ht = []
    for integ in ("mercurius", "trace", "ias15"):
        for npairs in (2, 3):
            n = 3 * npairs
            orders_ = [None, list(range(n - 1, -1, -1)), [i for i in range(n) if i % 3 != 2] + [i for i in range(n) if i % 3 == 2]]
            for order in orders_:
                for ks in (0, 1):
                    for seed in range(1, 13 if ctx.tier == "quick" else 41):
                        ht.append((integ, npairs, ks, seed, order))
    hres = pool.run_tasks(HybridCluster(rebound), ht, timeout=120, chunk=4)
    for t, r in zip(ht, hres):
        case = {"kind": "hybrid", "task": list(t)}
        if r[0] != "ok":
            frag = common.classify_crash(r[1])[0] if r[0] == "crash" else r[0]
            ctx.violation("hybrid-cluster-%s:%s:%s" % (r[0], t[0], frag), "%s in hybrid cluster case %s: %s" % (r[0], t, str(r[1])[-500:]), case)
            continue
        for sig, what in r[1]:
            ctx.violation(sig, what, case)
    cov = {
        "hybrid_cluster_runs": len(ht),
        "states": len(dt) + orders + len(st) + len(ht), "transitions": len(dt) + 3 * orders, "traces_validated_against_impl": len(dt) + orders,
        "samples": [{"detect_case": list(dt[0])}, {"resolve_case": list(rt[0][:4]), "bodies": rt[0][4]}],
        "detection_cases": len(dt), "detection_cases_with_a_qualifying_pair": nontrivial, "resolution_cases": len(rt), "processing_orders_executed": orders,
        "order_enumeration_capped_for": sorted(set(capped)), "order_cap": cap,
        "exhaustive": not capped,
        "rule": "detection: lattice of 2-6 spheres (positions, +-velocities, 4 radii patterns incl. zero and 1:10) x 4 search modes x {no boundary, periodic with ghost ring}; "
                "resolution: 8 clusters x 4 search modes x keep_sorted x {merge, hardsphere} x every permutation of the pending list reachable by the internal shuffle (one rand_seed per permutation, found by simulating the shuffle with libc's rand_r; capped at order_cap) x 3 steps",
    }
    return ctx.finish(LEVEL, cov, assumptions=[
        "pairs within 1e-9 (relative) of the overlap / approach threshold are not demanded either way",
        "extra pairs handed to the resolver are not an error (the statement only demands completeness)",
        "in tree modes removal is lazy: totals are taken over particles not flagged y=NaN after reb_simulation_update_tree",
    ])


def replay(ctx, case):
    rebound = ctx.use("asan")
    t = case["task"]
    if case["kind"] == "hybrid":
        V = HybridCluster(rebound)(tuple(case["task"]))
        for v in V:
            print(v)
        return 1 if V else 0
    if case["kind"] == "shear":
        V = Shear(rebound)(tuple(t))
    elif case["kind"] == "detect":
        V, _ = Detect(rebound)((t[0], t[1], t[2]))
    else:
        V, _, _ = Resolve(rebound)(tuple(t))
    for v in V:
        print(v)
    return 1 if V else 0
