"""C20 -- changes of units and of reference frame are exact symmetries.

Finite spaces enumerated completely: all 7x15x17 unit triples, all conversion pairs and chains per dimension, rotation
constructors on the 26 lattice directions (+ scalings, +-1ulp perturbations of parallel / antiparallel pairs) and an
angle lattice, frame shifts x variational orders, simulation arithmetic.
"""
import ctypes
import itertools
import math

from .. import lattice, pool, rb
from ..common import nanmax

LEVEL = "exploration"
U = 2.0 ** -53

# ---- independent SI table (IAU 2012/2015 resolutions, CODATA, JPL DE ephemeris GM values; NOT copied from rebound/units.py)
AU = 149597870700.0                       # IAU 2012 B2, exact
PC = 648000.0 / math.pi * AU              # IAU 2015 B2
JYR = 365.25 * 86400.0                    # Julian year, exact
GM_SUN = 1.32712440041e20                 # m^3 s^-2 (DE430-class value; IAU nominal 1.3271244e20)
G_CODATA = 6.674e-11                      # CODATA 2014 6.67408e-11, 2018 6.67430e-11
TIMES = {"s": 1.0, "hr": 3600.0, "day": 86400.0, "days": 86400.0, "d": 86400.0, "yr": JYR, "year": JYR, "years": JYR, "yrs": JYR, "jyr": JYR,
         "sidereal_yr": 365.256363004 * 86400.0, "yr2pi": math.sqrt(AU ** 3 / GM_SUN), "kyr": JYR * 1e3, "myr": JYR * 1e6, "gyr": JYR * 1e9}
LENGTHS = {"m": 1.0, "cm": 0.01, "km": 1000.0, "au": AU, "aus": AU, "pc": PC, "parsec": PC}
# GM in m^3 s^-2 (km^3 s^-2 * 1e9). kg and g are defined through G itself.
GMS = {"kg": None, "g": None, "gram": None, "msun": GM_SUN, "solarmass": GM_SUN, "sunmass": GM_SUN, "msolar": GM_SUN,
       "mmercury": 2.2032e13, "mvenus": 3.24859e14, "mearth": 3.986004e14, "mmars": 4.28284e13, "mjupiter": 1.2668653e17,
       "msaturn": 3.7931207e16, "muranus": 5.793951e15, "mneptune": 6.835100e15, "mpluto": 8.696e11,
       "massist": 0.00029591220828412 ** -1 * GM_SUN * (86400.0 ** 2 / AU ** 3) ** 0 * 0 + GM_SUN / 0.00029591220828412 * 0 + 1.0}
# massist: "Sun has mass 0.00029591220828412 in these units; G=1 with length=AU and time=day" (documented next to the unit)
GMS["massist"] = AU ** 3 / 86400.0 ** 2
ALIASES = [["yr", "year", "years", "yrs", "jyr"], ["day", "days", "d"], ["au", "aus"], ["pc", "parsec"], ["msun", "solarmass", "sunmass", "msolar"], ["g", "gram"]]
TOL_SI = 2e-4      # the constants of the statement are known to 4-10 digits; CODATA revisions of G differ by 3e-5


def expected_G(l, t, m):
    gm = GMS[m]
    if gm is None:
        gm = G_CODATA * (1.0 if m == "kg" else 1e-3)
    return gm * TIMES[t] ** 2 / LENGTHS[l] ** 3


def ulps(a, b):
    if a == b:
        return 0.0
    return abs(a - b) / (U * 2 * max(abs(a), abs(b)))


class Units:
    def __init__(self, rebound):
        self.rebound = rebound

    def __call__(self, task):
        kind = task[0]
        rebound = self.rebound
        rb.quiet()
        V = []
        if kind == "triple":
            _, l, t, m = task
            sim = rebound.Simulation()
            sim.units = (l, t, m)
            want = expected_G(l, t, m)
            if not abs(sim.G - want) <= TOL_SI * want:
                bad = [u for u, ok in ((l, self.single(l, "l")), (t, self.single(t, "t")), (m, self.single(m, "m"))) if not ok]
                V.append(("units:G:%s" % ",".join(bad or [l, t, m]), "units (%s,%s,%s): G=%r, SI gives %r (ratio %.9g)" % (l, t, m, sim.G, want, sim.G / want)))
            got = sim.units
            if (got["length"], got["time"], got["mass"]) != (l, t, m):
                V.append(("units:readback", "units set to (%s,%s,%s) read back as %s" % (l, t, m, got)))
            # an Earth-like orbit has the same period in SI seconds under every triple
            from rebound import units as ru
            sim.add(m=ru.convert_mass(1.0, "msun", m))
            sim.add(m=0.0, a=ru.convert_length(1.0, "au", l))
            P = sim.particles[1].P * TIMES[t]
            P0 = 2 * math.pi * math.sqrt(AU ** 3 / GM_SUN)
            if not abs(P - P0) <= TOL_SI * P0:
                V.append(("units:period:%s,%s,%s" % (l, t, m), "1 au orbit around 1 msun has period %r s in units (%s,%s,%s), expected %r s" % (P, l, t, m, P0)))
            return V, sim.G
        if kind == "chain":
            _, dim, a, b, c = task
            from rebound import units as ru
            sim = rebound.Simulation()
            base = {"l": ["au", "yr", "msun"], "t": ["au", "yr", "msun"], "m": ["au", "yr", "msun"]}[dim]
            idx = {"l": 0, "t": 1, "m": 2}[dim]

            def trip(u):
                x = list(base)
                x[idx] = u
                return tuple(x)
            sim.units = trip(a)
            sim.add(m=0.37, x=1.3, y=-0.4, z=0.2, vx=0.11, vy=0.93, vz=-0.05, r=0.01)
            p = sim.particles[0]
            p.ax, p.ay, p.az = 0.7, -0.3, 0.05
            orig = (p.m, p.x, p.vx, p.ax, p.r)
            sim.convert_particle_units(*trip(b))
            mid = (p.m, p.x, p.vx, p.ax, p.r)
            # exponents: compare with the independent table
            tab = {"l": LENGTHS, "t": TIMES, "m": None}[dim]
            if dim == "l":
                rL = LENGTHS[a] / LENGTHS[b]
                want = (orig[0], orig[1] * rL, orig[2] * rL, orig[3] * rL, orig[4] * rL)
            elif dim == "t":
                rT = TIMES[b] / TIMES[a]
                want = (orig[0], orig[1], orig[2] * rT, orig[3] * rT * rT, orig[4])
            else:
                ga = GMS[a] if GMS[a] is not None else G_CODATA * (1.0 if a == "kg" else 1e-3)
                gb = GMS[b] if GMS[b] is not None else G_CODATA * (1.0 if b == "kg" else 1e-3)
                want = (orig[0] * ga / gb, orig[1], orig[2], orig[3], orig[4])
            names = ("m", "x", "vx", "ax", "r")
            for k in range(5):
                if not abs(mid[k] - want[k]) <= 2 * TOL_SI * abs(want[k]):
                    V.append(("units:convert:%s:%s" % (dim, names[k]), "converting %s -> %s: %s goes %r -> %r, the dimensional rule gives %r" % (a, b, names[k], orig[k], mid[k], want[k])))
                    break
            # reversible
            sim2 = rebound.Simulation()
            sim2.units = trip(a)
            sim2.add(m=0.37, x=1.3, y=-0.4, z=0.2, vx=0.11, vy=0.93, vz=-0.05, r=0.01)
            q = sim2.particles[0]
            q.ax, q.ay, q.az = 0.7, -0.3, 0.05
            sim2.convert_particle_units(*trip(b))
            sim2.convert_particle_units(*trip(a))
            back = (q.m, q.x, q.vx, q.ax, q.r)
            if not (nanmax(ulps(x, y) for x, y in zip(back, orig)) <= 8):
                V.append(("units:not-reversible:%s" % dim, "%s -> %s -> %s returns %s instead of %s" % (a, b, a, back, orig)))
            # transitive
            sim.convert_particle_units(*trip(c))
            via = (p.m, p.x, p.vx, p.ax, p.r)
            sim3 = rebound.Simulation()
            sim3.units = trip(a)
            sim3.add(m=0.37, x=1.3, y=-0.4, z=0.2, vx=0.11, vy=0.93, vz=-0.05, r=0.01)
            w = sim3.particles[0]
            w.ax, w.ay, w.az = 0.7, -0.3, 0.05
            sim3.convert_particle_units(*trip(c))
            direct = (w.m, w.x, w.vx, w.ax, w.r)
            if not (nanmax(ulps(x, y) for x, y in zip(via, direct)) <= 16):
                V.append(("units:not-transitive:%s" % dim, "%s -> %s -> %s gives %s, %s -> %s gives %s" % (a, b, c, via, a, c, direct)))
            return V, 1
        raise ValueError(kind)

    def single(self, u, dim):
        """is this unit alone consistent? (used to name the culprit)"""
        rebound = self.rebound
        sim = rebound.Simulation()
        base = ["au", "yr", "msun"]
        base[{"l": 0, "t": 1, "m": 2}[dim]] = u
        sim.units = tuple(base)
        want = expected_G(*base)
        return abs(sim.G - want) <= TOL_SI * want


# ------------------------------------------------------------------------------------------ rotations
def norm(v):
    return math.sqrt(sum(x * x for x in v))


class Rot:
    def __init__(self, rebound):
        self.rebound = rebound
        cl = rebound.clibrebound
        self.cl = cl

    def apply(self, R, v):
        from rebound.vectors import Vec3d
        w = R * list(v)
        return tuple(w)

    def qnorm(self, R):
        return math.sqrt(R.ix ** 2 + R.iy ** 2 + R.iz ** 2 + R.r ** 2)

    def check_rotation(self, R, V, sig, desc):
        """R must be a proper rotation: preserves lengths and dot products on a probe set"""
        probes = [(1.0, 0.0, 0.0), (0.0, 1.0, 0.0), (0.0, 0.0, 1.0), (0.3, -1.2, 2.5)]
        img = [self.apply(R, p) for p in probes]
        for p, q in zip(probes, img):
            if not abs(norm(q) - norm(p)) <= 64 * U * norm(p):
                V.append((sig + ":length", "%s: |R v| = %r for |v| = %r (v=%s), quaternion norm %r" % (desc, norm(q), norm(p), p, self.qnorm(R))))
                return False
        for (p1, q1), (p2, q2) in itertools.combinations(list(zip(probes, img)), 2):
            d0 = sum(a * b for a, b in zip(p1, p2))
            d1 = sum(a * b for a, b in zip(q1, q2))
            if not abs(d0 - d1) <= 128 * U * norm(p1) * norm(p2):
                V.append((sig + ":angle", "%s: (R u).(R v) = %r but u.v = %r" % (desc, d1, d0)))
                return False
        # orientation preserving
        c = [q1[1] * q2[2] - q1[2] * q2[1] for q1, q2 in [(img[0], img[1])]]
        cx = (img[0][1] * img[1][2] - img[0][2] * img[1][1], img[0][2] * img[1][0] - img[0][0] * img[1][2], img[0][0] * img[1][1] - img[0][1] * img[1][0])
        if sum((a - b) ** 2 for a, b in zip(cx, img[2])) > 1e-24:
            V.append((sig + ":improper", "%s: R x cross R y != R z (reflection)" % desc))
            return False
        return True

    def __call__(self, task):
        kind = task[0]
        rebound = self.rebound
        Rotation = rebound.Rotation
        V = []
        if kind == "fromto":
            _, a, b = task
            cls = "antiparallel" if all(abs(x + y) <= 4 * U * max(abs(x), abs(y), 1e-300) * 4 for x, y in zip([c / norm(a) for c in a], [c / norm(b) for c in b])) else ("parallel" if all(abs(x - y) <= 16 * U for x, y in zip([c / norm(a) for c in a], [c / norm(b) for c in b])) else "generic")
            try:
                R = Rotation.from_to(list(a), list(b))
            except Exception as e:
                return [("rotation:from_to:raises", "from_to(%s,%s) raises %s" % (a, b, e))], 0
            if not self.check_rotation(R, V, "rotation:from_to:%s" % cls, "from_to(%s, %s)" % (a, b)):
                return V, 1
            w = self.apply(R, a)
            bh = [x / norm(b) * norm(a) for x in b]
            if not (nanmax(abs(x - y) for x, y in zip(w, bh)) <= 256 * U * norm(a)):
                V.append(("rotation:from_to:%s:target" % cls, "from_to(%s,%s) maps the first vector to %s instead of %s" % (a, b, w, bh)))
            return V, 1
        if kind == "axis":
            _, ax, ang = task
            R = Rotation(angle=ang, axis=list(ax))
            if not self.check_rotation(R, V, "rotation:angle_axis", "angle_axis(%r, %s)" % (ang, ax)):
                return V, 1
            w = self.apply(R, ax)
            if not (nanmax(abs(x - y) for x, y in zip(w, ax)) <= 64 * U * norm(ax)):
                V.append(("rotation:angle_axis:axis-moves", "rotation about %s by %r moves its own axis to %s" % (ax, ang, w)))
            # Rodrigues on a probe
            p = (0.3, -1.2, 2.5)
            k = [x / norm(ax) for x in ax]
            kxp = (k[1] * p[2] - k[2] * p[1], k[2] * p[0] - k[0] * p[2], k[0] * p[1] - k[1] * p[0])
            kdp = sum(x * y for x, y in zip(k, p))
            want = [p[i] * math.cos(ang) + kxp[i] * math.sin(ang) + k[i] * kdp * (1 - math.cos(ang)) for i in range(3)]
            got = self.apply(R, p)
            if not (nanmax(abs(x - y) for x, y in zip(got, want)) <= 256 * U * norm(p)):
                V.append(("rotation:angle_axis:rodrigues", "angle_axis(%r,%s) maps %s to %s, Rodrigues' formula gives %s" % (ang, ax, p, got, want)))
            # inverse and composition laws
            Ri = R.inverse()
            back = self.apply(Ri, got)
            if not (nanmax(abs(x - y) for x, y in zip(back, p)) <= 256 * U * norm(p)):
                V.append(("rotation:inverse", "R^-1 R v != v for angle_axis(%r,%s)" % (ang, ax)))
            R2 = R * R
            twice = self.apply(R2, p)
            seq = self.apply(R, got)
            if not (nanmax(abs(x - y) for x, y in zip(twice, seq)) <= 256 * U * norm(p)):
                V.append(("rotation:composition", "(R*R) v != R (R v) for angle_axis(%r,%s)" % (ang, ax)))
            return V, 1
        if kind == "orbit":
            _, Om, inc, om = task
            R = Rotation.orbit(Omega=Om, inc=inc, omega=om)
            if not self.check_rotation(R, V, "rotation:orbit", "orbit(%r,%r,%r)" % (Om, inc, om)):
                return V, 1
            # Murray & Dermott 2.121: x axis -> direction of pericentre
            want = (math.cos(Om) * math.cos(om) - math.sin(Om) * math.sin(om) * math.cos(inc),
                    math.sin(Om) * math.cos(om) + math.cos(Om) * math.sin(om) * math.cos(inc), math.sin(om) * math.sin(inc))
            got = self.apply(R, (1.0, 0.0, 0.0))
            if not (nanmax(abs(x - y) for x, y in zip(got, want)) <= 256 * U):
                V.append(("rotation:orbit:pericentre", "orbit(Omega=%r,inc=%r,omega=%r) maps x to %s, expected %s" % (Om, inc, om, got, want)))
            zw = (math.sin(Om) * math.sin(inc), -math.cos(Om) * math.sin(inc), math.cos(inc))
            gz = self.apply(R, (0.0, 0.0, 1.0))
            if not (nanmax(abs(x - y) for x, y in zip(gz, zw)) <= 256 * U):
                V.append(("rotation:orbit:normal", "orbit(Omega=%r,inc=%r,omega=%r) maps z to %s, expected %s" % (Om, inc, om, gz, zw)))
            # to_orbital(init_orbit) reproduces the same rotation
            O2, i2, o2 = R.orbital()
            R2 = Rotation.orbit(Omega=O2, inc=i2, omega=o2)
            for p in ((1.0, 0.0, 0.0), (0.0, 0.0, 1.0), (0.3, -1.2, 2.5)):
                a, b = self.apply(R, p), self.apply(R2, p)
                if not (nanmax(abs(x - y) for x, y in zip(a, b)) <= 1e-7 * norm(p)):
                    V.append(("rotation:to_orbital", "orbit(%r,%r,%r).orbital() = (%r,%r,%r) describes a different rotation (v=%s: %s vs %s)" % (Om, inc, om, O2, i2, o2, p, a, b)))
                    break
            return V, 1
        if kind == "newaxes":
            _, nz, nx = task
            dot = sum(a * b for a, b in zip(nz, nx))
            cr = (nz[1] * nx[2] - nz[2] * nx[1], nz[2] * nx[0] - nz[0] * nx[2], nz[0] * nx[1] - nz[1] * nx[0])
            if norm(cr) < 1e-6 * norm(nz) * norm(nx):
                return [], 0
            R = Rotation.to_new_axes(newz=list(nz), newx=list(nx))
            if not self.check_rotation(R, V, "rotation:to_new_axes", "to_new_axes(%s,%s)" % (nz, nx)):
                return V, 1
            gz = self.apply(R, nz)
            if max(abs(gz[0]), abs(gz[1])) > 512 * U * norm(nz) or gz[2] <= 0:
                V.append(("rotation:to_new_axes:z", "to_new_axes(newz=%s) maps newz to %s, not onto +z" % (nz, gz)))
            xo = [a - dot / sum(c * c for c in nz) * b for a, b in zip(nx, nz)]
            gx = self.apply(R, xo)
            if max(abs(gx[1]), abs(gx[2])) > 512 * U * norm(xo) or gx[0] <= 0:
                V.append(("rotation:to_new_axes:x", "to_new_axes(newz=%s,newx=%s) maps the orthogonalised newx to %s, not onto +x" % (nz, nx, gx)))
            return V, 1
        raise ValueError(kind)


# ------------------------------------------------------------------------------------------ frames and arithmetic
class Frames:
    def __init__(self, rebound):
        self.rebound = rebound

    def base(self, sysname, dlam=0.0, var=None, d2=None):
        """system with particle i displaced by dlam*var[i] (+ dlam^2/2 * d2[i])"""
        rebound = self.rebound
        G, bodies, P = lattice.system(sysname)
        sim = rebound.Simulation()
        sim.G = G
        for i, b in enumerate(bodies):
            vals = list(b)
            # shift the whole system off-centre so that frame changes do something
            vals[1] += 0.7
            vals[2] -= 0.3
            vals[4] += 0.02
            vals[6] -= 0.01
            if var is not None:
                for k in range(7):
                    vals[k] += dlam * var[i][k] + (0.5 * dlam * dlam * d2[i][k] if d2 is not None else 0.0)
            sim.add(m=vals[0], x=vals[1], y=vals[2], z=vals[3], vx=vals[4], vy=vals[5], vz=vals[6])
        return sim

    def get(self, sim, n):
        return [[sim.particles[i].m, sim.particles[i].x, sim.particles[i].y, sim.particles[i].z, sim.particles[i].vx, sim.particles[i].vy, sim.particles[i].vz] for i in range(n)]

    def __call__(self, task):
        sysname, order, op = task
        rebound = self.rebound
        rb.quiet()
        V = []
        tag = "%s order=%s %s" % (sysname, order, op)
        sim = self.base(sysname)
        n = sim.N
        # variation: every particle gets a mass and coordinate variation
        var = [[1e-3 * (i + 1) if i > 0 else 0.0, 0.3 - 0.1 * i, 0.2 * i, -0.1, 0.05 * i, -0.2, 0.1 * i - 0.1] for i in range(n)]
        d2 = [[0.0, 0.01 * i, -0.02, 0.005 * i, 0.0, 0.01, -0.003 * i] for i in range(n)]
        if order == "tp":
            # variation of a single massless test particle (the last one): a frame shift defined by the massive bodies leaves it alone
            sim.particles[n - 1].m = 0.0
            var = [[0.0] * 7 for i in range(n - 1)] + [[0.0] + var[n - 1][1:]]
            vt = sim.add_variation(testparticle=n - 1)
            p = vt.particles[0]
            p.x, p.y, p.z, p.vx, p.vy, p.vz = var[n - 1][1:]
            before = self.get(sim, n)
            (sim.move_to_com if op == "com" else sim.move_to_hel)()
            after = self.get(sim, n)

            def shifted_tp(lam):
                s = self.base(sysname, lam, var, None)
                s.particles[n - 1].m = 0.0
                (s.move_to_com if op == "com" else s.move_to_hel)()
                return self.get(s, n)
            eps = 1e-4
            a, b = shifted_tp(eps), shifted_tp(-eps)
            D1 = [(a[n - 1][k] - b[n - 1][k]) / (2 * eps) for k in range(7)]
            p = vt.particles[0]
            got = [p.m, p.x, p.y, p.z, p.vx, p.vy, p.vz]
            for k in range(1, 7):
                if not (abs(got[k] - D1[k]) <= 1e-7 * (1 + abs(D1[k]))):
                    V.append(("frame:%s:variation-testparticle" % op, "test-particle variation component %d is %r after the shift, the derivative of the shifted system is %r [%s]" % (k, got[k], D1[k], tag)))
                    break
            for i in range(n):
                for k in range(1, 7):
                    if abs((after[i][k] - after[0][k]) - (before[i][k] - before[0][k])) > 64 * U * max(abs(v) for r_ in before for v in r_[1:]):
                        V.append(("frame:%s:relative" % op, "relative coordinate %d of particle %d changed by the frame shift [%s]" % (k, i, tag)))
                        return V
            return V
        if order >= 1:
            v1 = sim.add_variation()
            for i in range(n):
                p = v1.particles[i]
                p.m, p.x, p.y, p.z, p.vx, p.vy, p.vz = var[i]
        if order == 2:
            v2 = sim.add_variation(order=2, first_order=v1)
            for i in range(n):
                p = v2.particles[i]
                p.m, p.x, p.y, p.z, p.vx, p.vy, p.vz = d2[i]
        before = self.get(sim, n)
        E0 = None
        if op == "com":
            sim.move_to_com()
        else:
            sim.move_to_hel()
        after = self.get(sim, n)
        scale = max(abs(v) for b in before for v in b[1:])
        # relative coordinates unchanged
        for i in range(1, n):
            for k in range(1, 7):
                if not (abs((after[i][k] - after[0][k]) - (before[i][k] - before[0][k])) <= 64 * U * scale):
                    V.append(("frame:%s:relative" % op, "relative coordinate %d of particle %d changed by the frame shift [%s]" % (k, i, tag)))
                    return V
        # the reference point is at rest at the origin
        if op == "com":
            M = sum(a[0] for a in after)
            for k in range(1, 7):
                c = sum(a[0] * a[k] for a in after) / M
                if not (abs(c) <= 256 * U * scale):
                    V.append(("frame:com:origin", "centre of mass component %d is %.3g after move_to_com [%s]" % (k, c, tag)))
                    return V
        else:
            if any(abs(after[0][k]) > 0 for k in range(1, 7)):
                V.append(("frame:hel:origin", "particle 0 is at %s after move_to_hel [%s]" % (after[0][1:], tag)))
                return V
        if any(after[i][0] != before[i][0] for i in range(n)):
            V.append(("frame:%s:mass" % op, "masses changed by the frame shift [%s]" % (op, tag)))
        # variational particles = derivatives of the shifted real system
        if order >= 1:
            eps = 1e-4

            def shifted(lam):
                s = self.base(sysname, lam, var, d2 if order == 2 else None)
                if op == "com":
                    s.move_to_com()
                else:
                    s.move_to_hel()
                return self.get(s, n)
            # Richardson-extrapolated central differences
            def d1(h):
                a, b = shifted(h), shifted(-h)
                return [[(a[i][k] - b[i][k]) / (2 * h) for k in range(7)] for i in range(n)]
            D1 = [[(4 * x - y) / 3 for x, y in zip(r1, r2)] for r1, r2 in zip(d1(eps / 2), d1(eps))]
            got = [[getattr(v1.particles[i], a) for a in ("m", "x", "y", "z", "vx", "vy", "vz")] for i in range(n)]
            for i in range(n):
                for k in range(7):
                    if not (abs(got[i][k] - D1[i][k]) <= 1e-7 * (1 + abs(D1[i][k]))):
                        V.append(("frame:%s:variation-1st" % op, "first-order variational particle %d component %d is %r after the shift, the derivative of the shifted system is %r [%s]" % (i, k, got[i][k], D1[i][k], tag)))
                        return V
            if order == 2:
                def dd(h):
                    a, c, b = shifted(h), shifted(0.0), shifted(-h)
                    return [[(a[i][k] - 2 * c[i][k] + b[i][k]) / (h * h) for k in range(7)] for i in range(n)]
                h = 2e-3
                D2 = [[(4 * x - y) / 3 for x, y in zip(r1, r2)] for r1, r2 in zip(dd(h / 2), dd(h))]
                got2 = [[getattr(v2.particles[i], a) for a in ("m", "x", "y", "z", "vx", "vy", "vz")] for i in range(n)]
                for i in range(n):
                    for k in range(7):
                        if not (abs(got2[i][k] - D2[i][k]) <= 2e-5 * (1 + abs(D2[i][k]))):
                            V.append(("frame:%s:variation-2nd" % op, "second-order variational particle %d component %d is %r after the shift, the second derivative of the shifted system is %r [%s]" % (i, k, got2[i][k], D2[i][k], tag)))
                            return V
        return V


class Arith:
    def __init__(self, rebound):
        self.rebound = rebound

    def __call__(self, task):
        op, s = task
        rebound = self.rebound
        rb.quiet()
        V = []
        F = Frames(rebound)
        A = F.base("S3")
        B = F.base("S4G")
        if B.N != A.N:
            B.remove(index=B.N - 1)
        n = A.N
        a = F.get(A, n)
        b = F.get(B, n)
        if op == "mul":
            C = A * s
            want = [[r[0]] + [v * s for v in r[1:]] for r in a]
        elif op == "rmul":
            C = s * A
            want = [[r[0]] + [v * s for v in r[1:]] for r in a]
        elif op == "div":
            C = A / s
            want = [[r[0]] + [v * (1. / s) for v in r[1:]] for r in a]
        elif op == "imul":
            C = A.copy()
            C *= s
            want = [[r[0]] + [v * s for v in r[1:]] for r in a]
        elif op == "multiply":
            # the two-factor map: positions by s[0], velocities by s[1]; variational particles are scaled with the real ones
            sp, sv = s
            C = A.copy()
            vv = C.add_variation()
            for i in range(n):
                q = vv.particles[i]
                q.x, q.y, q.z, q.vx, q.vy, q.vz = 0.1 * (i + 1), -0.2, 0.05 * i, 0.3, -0.1 * i, 0.07 + i
            vb = [[vv.particles[i].m, vv.particles[i].x, vv.particles[i].y, vv.particles[i].z, vv.particles[i].vx, vv.particles[i].vy, vv.particles[i].vz] for i in range(n)]
            C.multiply(sp, sv)
            want = [[r[0]] + [v * sp for v in r[1:4]] + [v * sv for v in r[4:]] for r in a]
            wantv = [[r[0]] + [v * sp for v in r[1:4]] + [v * sv for v in r[4:]] for r in vb]
            gotv = [[vv.particles[i].m, vv.particles[i].x, vv.particles[i].y, vv.particles[i].z, vv.particles[i].vx, vv.particles[i].vy, vv.particles[i].vz] for i in range(n)]
            if gotv != wantv:
                V.append(("arithmetic:multiply:variational", "multiply(%r, %r): variational particles are %s, expected %s" % (sp, sv, gotv, wantv)))
        elif op == "add":
            C = A + B
            want = [[ra[0]] + [x + y for x, y in zip(ra[1:], rb_[1:])] for ra, rb_ in zip(a, b)]
        elif op == "sub":
            C = A - B
            want = [[ra[0]] + [x - y for x, y in zip(ra[1:], rb_[1:])] for ra, rb_ in zip(a, b)]
        elif op == "iadd":
            C = A.copy()
            C += B
            want = [[ra[0]] + [x + y for x, y in zip(ra[1:], rb_[1:])] for ra, rb_ in zip(a, b)]
        elif op == "isub":
            C = A.copy()
            C -= B
            want = [[ra[0]] + [x - y for x, y in zip(ra[1:], rb_[1:])] for ra, rb_ in zip(a, b)]
        elif op in ("isub_self", "iadd_self"):
            # both operands are the same object
            C = A.copy()
            if op == "isub_self":
                C -= C
                want = [[r[0]] + [v - v for v in r[1:]] for r in a]
            else:
                C += C
                want = [[r[0]] + [v + v for v in r[1:]] for r in a]
        elif op == "rotate":
            # energy, |L| and pair distances invariant under a rotation of the whole simulation
            R = rebound.Rotation(angle=s, axis=[0.3, -1.0, 0.5])
            C = A.copy()
            E0 = C.energy()
            L0 = C.angular_momentum()
            d0 = [math.dist(a[i][1:4], a[j][1:4]) for i in range(n) for j in range(i)]
            C.rotate(R)
            c = F.get(C, n)
            E1 = C.energy()
            L1 = C.angular_momentum()
            d1 = [math.dist(c[i][1:4], c[j][1:4]) for i in range(n) for j in range(i)]
            if not (abs(E1 - E0) <= 1e-13 * abs(E0)):
                V.append(("rotate:energy", "energy %r -> %r under a rotation by %r" % (E0, E1, s)))
            if not (abs(norm(L1) - norm(L0)) <= 1e-13 * norm(L0)):
                V.append(("rotate:angular-momentum", "|L| %r -> %r under a rotation by %r" % (norm(L0), norm(L1), s)))
            if not (nanmax(abs(x - y) for x, y in zip(d0, d1)) <= 1e-13 * max(d0)):
                V.append(("rotate:distances", "pair distances change under a rotation by %r" % s))
            return V
        c = F.get(C, n)
        if op in ("add", "sub", "iadd", "isub"):
            # masses: not part of the documented linear map on coordinates; only coordinates are compared
            pass
        for i in range(n):
            if c[i][1:] != want[i][1:]:
                V.append(("arithmetic:%s" % op, "simulation %s %r: particle %d is %s, the same expression on the coordinates gives %s" % (op, s, i, c[i][1:], want[i][1:])))
                break
        if op in ("mul", "rmul", "div", "add", "sub") and F.get(A, n) != a:
            V.append(("arithmetic:%s:operand-modified" % op, "the left operand was modified by %s" % op))
        return V


def directions():
    return [d for d in itertools.product((-1.0, 0.0, 1.0), repeat=3) if d != (0.0, 0.0, 0.0)]


def run(ctx):
    rebound = ctx.use("rel")
    from rebound import units as ru
    # the statement says "every supported unit": the unit names come from the package, the values from the independent table
    names_l, names_t, names_m = sorted(ru.lengths_SI), sorted(ru.times_SI), sorted(ru.masses_SI)
    for nm, tab, dim in ((names_l, LENGTHS, "length"), (names_t, TIMES, "time"), (names_m, GMS, "mass")):
        for u in nm:
            if u not in tab:
                ctx.violation("units:unknown-unit:%s" % u, "supported %s unit %r has no entry in the independent SI table of the check" % (dim, u), {"unit": u})
    ut = [("triple", l, t, m) for l in names_l if l in LENGTHS for t in names_t if t in TIMES for m in names_m if m in GMS]
    for dim, nm in (("l", [x for x in names_l if x in LENGTHS]), ("t", [x for x in names_t if x in TIMES]), ("m", [x for x in names_m if x in GMS])):
        for a, b, c in itertools.product(nm, repeat=3):
            ut.append(("chain", dim, a, b, c))
    ut = ctx.shuffled(ut)
    ures = pool.run_tasks(Units(rebound), ut, timeout=60, chunk=64)
    Gs = {}
    for t, r in zip(ut, ures):
        if r[0] != "ok":
            ctx.violation("units-%s" % r[0], "%s in %s: %s" % (r[0], t, str(r[1])[-500:]), {"kind": "units", "task": list(t)})
            continue
        V, g = r[1]
        if t[0] == "triple":
            Gs[t[1:]] = g
        for sig, what in V:
            ctx.violation(sig, what, {"kind": "units", "task": list(t)})
    # aliases give bitwise the same G; kyr/myr/gyr are exact multiples
    for grp in ALIASES:
        for (l, t, m), g in Gs.items():
            for dim, u in ((0, l), (1, t), (2, m)):
                if u == grp[0]:
                    for alt in grp[1:]:
                        k = [l, t, m]
                        k[dim] = alt
                        if tuple(k) in Gs and Gs[tuple(k)] != g:
                            ctx.violation("units:alias:%s" % alt, "G differs between the aliases %s and %s: %r vs %r" % (u, alt, g, Gs[tuple(k)]), {"kind": "alias", "a": u, "b": alt})
    for (l, t, m), g in Gs.items():
        if t == "yr":
            for big, f in (("kyr", 1e3), ("myr", 1e6), ("gyr", 1e9)):
                if (l, big, m) in Gs and ulps(Gs[(l, big, m)], g * f * f) > 8:
                    ctx.violation("units:multiple:%s" % big, "G in %s is not %g^2 times G in yr" % (big, f), {"kind": "multiple", "unit": big})
    # rotations
    D = directions()
    rt = []
    for a in D:
        for b in D:
            rt.append(("fromto", a, b))
    for a in D:
        for s in (1e-8, 1e8):
            rt.append(("fromto", tuple(x * s for x in a), tuple(-x for x in a)))
        # +-1 ulp around parallel and antiparallel
        for sgn in (1.0, -1.0):
            for e in (1.0 + 2 * U, 1.0 - U):
                b = (sgn * a[0] * e, sgn * a[1], sgn * a[2] if a[2] else sgn * 0.0)
                rt.append(("fromto", a, b))
    extra = [(0.8, 0.6, 0.0), (0.6, 0.0, 0.8), (0.0, 0.8, 0.6), (0.36, 0.48, 0.8), (0.1, 0.7, 0.2), (0.9, 0.3, 0.2), (0.2, 0.3, 0.9)]
    for a in extra:
        rt.append(("fromto", a, tuple(-x for x in a)))
        rt.append(("fromto", a, a))
    angles = [0.0, math.pi / 2, -math.pi / 2, math.pi, 2 * math.pi, 1e-9, 1.0, -1.0, 3.0]
    for a in D + extra:
        for ang in angles:
            rt.append(("axis", a, ang))
    oa = [0.0, 1e-10, 0.5, 1.0, math.pi / 2, math.pi - 1e-9, math.pi, 2.0, -1.0]
    for Om in oa:
        for inc in [0.0, 1e-10, 1e-7, 0.5, math.pi / 2, 2.5, math.pi - 1e-7, math.pi]:
            for om in oa:
                rt.append(("orbit", Om, inc, om))
    for nz in D[::2] + extra:
        for nx in D[1::3] + extra[:3]:
            rt.append(("newaxes", nz, nx))
    rt = ctx.shuffled(rt)
    rres = pool.run_tasks(Rot(rebound), rt, timeout=60, chunk=64)
    nrot = 0
    for t, r in zip(rt, rres):
        if r[0] != "ok":
            ctx.violation("rotation-%s:%s" % (r[0], t[0]), "%s in %s: %s" % (r[0], t, str(r[1])[-500:]), {"kind": "rot", "task": list(t)})
            continue
        V, k = r[1]
        nrot += k
        for sig, what in V:
            ctx.violation(sig, what, {"kind": "rot", "task": list(t)})
    ft = [(s, o, op) for s in ("S3", "S4G") for o in (0, 1, 2, "tp") for op in ("com", "hel")]
    fres = pool.run_tasks(Frames(rebound), ft, timeout=120, chunk=1)
    for t, r in zip(ft, fres):
        if r[0] != "ok":
            ctx.violation("frame-%s" % r[0], "%s in %s: %s" % (r[0], t, str(r[1])[-500:]), {"kind": "frame", "task": list(t)})
            continue
        for sig, what in r[1]:
            ctx.violation(sig, what, {"kind": "frame", "task": list(t)})
    at = [("multiply", sc) for sc in ((2.0, 3.0), (1.0, -1.0), (0.5, 2.0), (-1.0, 1.0), (1e-3, 7.25))] + [(op, s) for op in ("mul", "rmul", "div", "imul") for s in (2.0, -1.0, 0.0 if False else 0.5, 3.0, 1e-3, -7.25)] + [(op, 0) for op in ("add", "sub", "iadd", "isub", "isub_self", "iadd_self")] + [("rotate", s) for s in (0.3, 1.0, math.pi, -2.0)]
    ares = pool.run_tasks(Arith(rebound), at, timeout=60, chunk=1)
    for t, r in zip(at, ares):
        if r[0] != "ok":
            ctx.violation("arith-%s" % r[0], "%s in %s: %s" % (r[0], t, str(r[1])[-500:]), {"kind": "arith", "task": list(t)})
            continue
        for sig, what in r[1]:
            ctx.violation(sig, what, {"kind": "arith", "task": list(t)})
    cov = {
        "evaluations": len(ut) + len(rt) + len(ft) + len(at), "distinct_nontrivial": len(Gs) + nrot + len(ft) + len(at),
        "rule": "all %d unit triples (names taken from the package, values from an independent IAU/CODATA/JPL table); all conversion chains A->B->C per dimension; from_to on all ordered pairs of the 26 lattice directions plus scaled, +-1ulp and generic (anti)parallel pairs; "
                "angle_axis on directions x 9 angles; orbit on a 9x8x9 angle lattice; to_new_axes; frame shifts {S3,S4G} x variational order {0,1,2, single test particle} x {com,hel}; simulation arithmetic incl. multiply(s_pos, s_vel) with unequal factors and variational particles" % len(Gs),
        "samples": [list(ut[0]), list(rt[0]), list(ft[0])], "unit_triples": len(Gs), "rotation_cases": len(rt), "exhaustive": True,
    }
    return ctx.finish(LEVEL, cov, assumptions=[
        "SI consistency is judged to a relative 2e-4 (constants in the statement's sources agree to 4-10 digits; CODATA revisions of G differ by 3e-5); aliases must agree bitwise",
        "variational particles after a frame shift are compared with Richardson-extrapolated finite differences of shifted perturbed systems (1e-7 / 2e-5 relative)",
    ])


def replay(ctx, case):
    rebound = ctx.use("rel")
    k = case.get("kind")
    t = case.get("task")
    if k == "units":
        V, _ = Units(rebound)(tuple(t))
    elif k == "rot":
        V, _ = Rot(rebound)(tuple(tuple(x) if isinstance(x, list) else x for x in t))
    elif k == "frame":
        V = Frames(rebound)(tuple(t))
    elif k == "arith":
        V = Arith(rebound)(tuple(t))
    else:
        return run(ctx)
    for v in V:
        print(v)
    return 1 if V else 0
