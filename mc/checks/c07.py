"""C07 -- a crash during an archive write never loses completed snapshots.

For each (integrator, cadence mode) a 5-snapshot history is written once under strace; the logged
write(2)/lseek sequence gives every crash image (every byte prefix of the modification sequence).
Every image is opened (Python Simulationarchive + the C convenience constructor) in a worker where a
crash of the process is an observation, its exposed snapshots are compared with the uninterrupted
archive, and the run is restarted from the last exposed snapshot and must reproduce the uninterrupted
archive.
"""
import ctypes
import os
import shutil
import sys
import tempfile

from .. import build, common, crashmc, pool, rb

LEVEL = "fault_enumeration"
ASAN = True


def tmpdir():
    return tempfile.mkdtemp(prefix="c07-", dir=os.environ.get("VERIF_TMP", "/var/tmp"))


class Scenario:
    def __init__(self, integ, mode, mods, marks, final, ref):
        self.integ, self.mode, self.mods, self.marks, self.final, self.ref = integ, mode, mods, marks, final, ref
        # ends[k] = file size once save call k has completed
        self.ends = []
        c = bytearray()
        j = 0
        for i, m in enumerate(mods):
            c = crashmc.apply(c, m)
            while j < len(marks) and marks[j] == i + 1:
                self.ends.append(len(c))
                j += 1
        self._base = {}

    def base(self, i):
        if i not in self._base:
            c = bytearray()
            for m in self.mods[:i]:
                c = crashmc.apply(c, m)
            self._base[i] = bytes(c)
        return self._base[i]

    def image(self, i, n):
        if i >= len(self.mods):
            return self.base(len(self.mods))
        return bytes(crashmc.apply(self.base(i), self.mods[i], n))

    def completed_saves(self, i):
        return sum(1 for m in self.marks if m <= i)


class Scenario2(Scenario):
    """second level: the restart that follows a first crash, logged from the crash image `start` on; L snapshots were exposed"""
    def __init__(self, sc, start, L, mods, marks):
        self.integ, self.mode, self.ref, self.final = sc.integ, sc.mode, sc.ref, None
        self.mods, self.start, self.L = mods, bytes(start), L
        self.ends = list(sc.ends[:L])
        self.marks = [0] * L
        c = bytearray(start)
        last = 0
        wrote = False
        closes = sorted(set(marks))
        for i, m in enumerate(mods):
            c = crashmc.apply(c, m)
            wrote = True
            if (i + 1) in closes and wrote:
                self.ends.append(len(c))
                self.marks.append(i + 1)
                wrote = False
        self._base = {}

    def base(self, i):
        if i not in self._base:
            c = bytearray(self.start)
            for m in self.mods[:i]:
                c = crashmc.apply(c, m)
            self._base[i] = bytes(c)
        return self._base[i]

    def completed_saves(self, i):
        return self.L + sum(1 for m in self.marks[self.L:] if m <= i)


def snapshots_of(rebound, fn):
    """-> list of (t, masked fields) for all snapshots of an intact archive"""
    sa = rebound.Simulationarchive(fn)
    out = []
    for k in range(sa.nblobs):
        f = rb.fields_masked(rb.stream(sa[k]))
        f.pop(87, None)
        out.append((sa.t[k], f))
    return out


class Eval:
    def __init__(self, rebound, scen, workdir, level2=False):
        self.rebound = rebound
        self.scen = scen
        self.workdir = workdir
        self.names = None
        self.level2 = level2
        from ..scen import c07_writer
        self.writer = c07_writer

    def __call__(self, task):
        si, i, n = task[:3]
        sc = self.scen[si]
        img = sc.image(i, n)
        return self.evaluate(sc, img, sc.completed_saves(i), "mod %d byte %d" % (i, n))

    def evaluate(self, sc, img, J, where, restart=True):
        rebound = self.rebound
        rb.quiet()
        if self.names is None:
            self.names = rb.field_names()
        V = []
        tag = "%s/%s" % (sc.integ, sc.mode)
        fn = os.path.join(self.workdir, "img-%d.bin" % os.getpid())
        with open(fn, "wb") as f:
            f.write(img)
        # allowed number of exposed snapshots
        allowed = {J}
        if J < len(sc.ends) and len(img) >= sc.ends[J] - 12:
            allowed.add(J + 1)
        cls = self.cut_class(sc, img, J)
        # ---- opener 1: Python Simulationarchive
        err = None
        L = 0
        try:
            sa = rebound.Simulationarchive(fn)
            L = sa.nblobs
        except RuntimeError as e:
            err = str(e)
        if err is not None:
            if 0 not in allowed:
                V.append(("open-error-with-complete-snapshots:%s" % cls, "opening fails (%s) although %d snapshot(s) had been written completely; cut at %s, image %d bytes [%s]" % (err[:80], J, where, len(img), tag)))
        else:
            if L not in allowed or L == 0:
                V.append(("exposed-count:%s:%+d" % (cls, L - J), "archive exposes %d snapshots, %d were completely written (allowed %s); cut at %s, image %d bytes [%s]" % (L, J, sorted(allowed), where, len(img), tag)))
            for k in range(min(L, len(sc.ref))):
                try:
                    s = sa[k]
                except Exception as e:
                    V.append(("exposed-unloadable:%s" % cls, "exposed snapshot %d cannot be loaded: %s; cut at %s [%s]" % (k, str(e)[:100], where, tag)))
                    break
                f = rb.fields_masked(rb.stream(s))
                f.pop(87, None)
                d = rb.diff_fields(sc.ref[k][1], f, self.names)
                if d or sa.t[k] != sc.ref[k][0]:
                    V.append(("exposed-differs:%s" % cls, "exposed snapshot %d differs from the uninterrupted archive's in %s; cut at %s [%s]" % (k, d[:5], where, tag)))
                    break
            del sa
        # ---- opener 2: the C convenience constructor (owns its handle)
        cl = rebound.clibrebound
        cl.reb_simulationarchive_create_from_file.restype = ctypes.c_void_p
        cl.reb_simulationarchive_free.argtypes = [ctypes.c_void_p]
        p = cl.reb_simulationarchive_create_from_file(fn.encode())
        if p:
            csa = rebound.Simulationarchive.from_address(p)
            cn = csa.nblobs if csa._inf else 0
            if err is None and cn != L:
                V.append(("c-vs-python-count:%s" % cls, "C constructor exposes %d snapshots, Python %d; cut at %s [%s]" % (cn, L, where, tag)))
            cl.reb_simulationarchive_free(ctypes.c_void_p(p))
        # ---- opener 3: Simulation(filename)
        try:
            s = rebound.Simulation(fn)
            if err is not None:
                V.append(("simulation-opens-unopenable:%s" % cls, "Simulation(file) succeeds although Simulationarchive(file) fails; cut at %s [%s]" % (where, tag)))
            del s
        except RuntimeError:
            if err is None:
                V.append(("simulation-fails:%s" % cls, "Simulation(file) fails although the archive exposes %d snapshots; cut at %s [%s]" % (L, where, tag)))
        # ---- opener 4: the C one-call constructor reb_simulation_create_from_file (last and first snapshot)
        cl.reb_simulation_create_from_file.restype = ctypes.c_void_p
        cl.reb_simulation_create_from_file.argtypes = [ctypes.c_char_p, ctypes.c_int64]
        cl.reb_simulation_free.argtypes = [ctypes.c_void_p]
        for snap in (-1, 0):
            q = cl.reb_simulation_create_from_file(fn.encode(), snap)
            if q:
                tq = rebound.Simulation.from_address(q).t
                if err is not None:
                    V.append(("c-simulation-opens-unopenable:%s" % cls, "reb_simulation_create_from_file(file, %d) returns a simulation although Simulationarchive(file) fails; cut at %s [%s]" % (snap, where, tag)))
                elif L >= 1 and L <= len(sc.ref) and tq != sc.ref[L - 1 if snap == -1 else 0][0]:
                    V.append(("c-simulation-wrong-snapshot:%s" % cls, "reb_simulation_create_from_file(file, %d) returns t=%r, the archive's snapshot has t=%r; cut at %s [%s]" % (snap, tq, sc.ref[L - 1 if snap == -1 else 0][0], where, tag)))
                cl.reb_simulation_free(ctypes.c_void_p(q))
            elif err is None and L >= 1:
                V.append(("c-simulation-fails:%s" % cls, "reb_simulation_create_from_file(file, %d) returns NULL although the archive exposes %d snapshots; cut at %s [%s]" % (snap, L, where, tag)))
        # ---- restart from the last exposed snapshot and finish the run
        if restart and err is None and L >= 1 and not V:
            try:
                self.writer.run(rebound, sc.integ, sc.mode, fn, resume=L - 1)
                got = snapshots_of(rebound, fn)
            except Exception as e:
                V.append(("restart-fails:%s" % cls, "restart from snapshot %d raises %s: %s; cut at %s [%s]" % (L - 1, type(e).__name__, str(e)[:120], where, tag)))
                got = None
            if got is not None:
                if len(got) != len(sc.ref):
                    V.append(("restart-count:%s:%+d" % (cls, len(got) - len(sc.ref)), "after restart from snapshot %d the archive holds %d snapshots, the uninterrupted run %d (times %s); cut at %s [%s]" % (
                        L - 1, len(got), len(sc.ref), [g[0] for g in got], where, tag)))
                else:
                    for k in range(len(got)):
                        d = rb.diff_fields(sc.ref[k][1], got[k][1], self.names)
                        if d or got[k][0] != sc.ref[k][0]:
                            V.append(("restart-differs:%s" % cls, "after restart from snapshot %d, snapshot %d differs from the uninterrupted run in %s (t=%r vs %r); cut at %s [%s]" % (
                                L - 1, k, d[:5], got[k][0], sc.ref[k][0], where, tag)))
                            break
        try:
            os.unlink(fn)
        except OSError:
            pass
        return V, cls, (L if err is None else -1)

    def cut_class(self, sc, img, J):
        """structural class of the cut, from the file's own field map"""
        n = len(img)
        if J >= len(sc.ends):
            return "complete"
        start = sc.ends[J - 1] if J > 0 else 0
        if n == start and J > 0:
            return "boundary"
        if J > 0 and n <= start and img[:start] != sc.base(sc.marks[J - 1])[:start]:
            return "trailer-patch"
        if J > 0 and n <= start:
            return "boundary"
        if n >= sc.ends[J] - 12:
            return "in-trailer"
        if n >= sc.ends[J] - 12 - 16:
            return "in-END"
        if J == 0 and n < 64:
            return "in-header"
        # walk the fields of the snapshot being written
        p = start + (64 if J == 0 else 0)
        import struct
        while p + 16 <= n:
            sz, = struct.unpack_from("<Q", img, p + 8)
            if p + 16 + sz > n:
                return "in-payload" if J else "in-payload-first"
            p += 16 + sz
        return "in-field-header" if J else "in-field-header-first"


def build_scenarios(ctx, rebound, combos, workdir):
    rel = ctx.lib("rel")
    scen = []
    writer = os.path.join(common.VERIF, "mc", "scen", "c07_writer.py")
    env = dict(os.environ)
    env.pop("LD_PRELOAD", None)
    env["PYTHONPATH"] = common.VERIF
    for integ, mode in combos:
        fn = os.path.join(workdir, "ref-%s-%s.bin" % (integ, mode))
        mods, marks = crashmc.run_logged([sys.executable, writer, rel, integ, mode, fn], fn, env=env)
        final = open(fn, "rb").read()
        # the log must reproduce the file exactly, or the interception missed something
        c = bytearray()
        for m in mods:
            c = crashmc.apply(c, m)
        if bytes(c) != final:
            raise RuntimeError("syscall log does not reproduce the archive for %s/%s" % (integ, mode))
        ref = snapshots_of(rebound, fn)
        os.unlink(fn)
        scen.append(Scenario(integ, mode, mods, marks, final, ref))
    return scen


def run(ctx):
    rebound = ctx.use("asan")
    workdir = tmpdir()
    try:
        if ctx.tier == "quick":
            combos = [("whfast", "manual"), ("ias15", "manual"), ("whfast_unsafe", "step"), ("mercurius", "interval")]
        else:
            combos = [(i, m) for i in ("whfast", "whfast_unsafe", "ias15", "mercurius", "saba", "saba_unsafe", "janus", "leapfrog", "eos", "bs", "trace")
                      for m in ("manual", "step", "interval")
                      # the cadence model of the automatic modes (five snapshots, one every two steps) holds for fixed-step schemes only
                      if not (i in ("ias15", "bs") and m != "manual")]
        scen = build_scenarios(ctx, rebound, combos, workdir)
        tasks = []
        for si, sc in enumerate(scen):
            if len(sc.ref) != 5:
                ctx.violation("reference-count:%s/%s" % (sc.integ, sc.mode), "uninterrupted run wrote %d snapshots, expected 5" % len(sc.ref), {"kind": "ref", "integ": sc.integ, "mode": sc.mode})
            for i, n, _ in crashmc.images(sc.mods):
                tasks.append((si, i, n))
        ctx.note("scenarios=%d crash images=%d" % (len(scen), len(tasks)))
        tasks = ctx.shuffled(tasks)
        ev = Eval(rebound, scen, workdir)
        res = pool.run_tasks(ev, tasks, timeout=120, chunk=32, progress=lambda d, n: ctx.note("images %d/%d" % (d, n)))
        classes = {}
        outcomes = set()
        for (si, i, n), r in zip(tasks, res):
            sc = scen[si]
            case = {"integ": sc.integ, "mode": sc.mode, "mod": i, "bytes": n}
            if r[0] != "ok":
                J = sc.completed_saves(i)
                cls = ev.cut_class(sc, sc.image(i, n), J)
                if r[0] == "crash":
                    frag, short = common.classify_crash(r[1])
                else:
                    frag, short = r[0], str(r[1])[-600:]
                ctx.violation("opener-%s:%s:%s" % (r[0], cls, frag), "opening / restarting a crash image %s the process (cut class %s, %s/%s mod %d byte %d, image %d bytes): %s" % (
                    "kills" if r[0] == "crash" else r[0] + "s", cls, sc.integ, sc.mode, i, n, len(sc.image(i, n)), short), case)
                classes[cls] = classes.get(cls, 0) + 1
                outcomes.add((cls, r[0]))
                continue
            V, cls, L = r[1]
            classes[cls] = classes.get(cls, 0) + 1
            outcomes.add((cls, L))
            for sig, what in V:
                ctx.violation(sig, what, case)
        # ---- second level: a crash during the restart that follows a first crash
        reps = {}
        for (si, i, n), r in zip(tasks, res):
            if r[0] == "ok" and not r[1][0] and r[1][2] >= 1:
                key = (si, r[1][1], r[1][2])
                if key not in reps:
                    reps[key] = (i, n)
        rep_list = sorted(reps.items())
        if ctx.tier == "quick":
            rep_list = [x for x in rep_list if x[0][0] == 0]
        rel = ctx.lib("rel")
        writer = os.path.join(common.VERIF, "mc", "scen", "c07_writer.py")
        env2 = dict(os.environ)
        env2.pop("LD_PRELOAD", None)
        env2["PYTHONPATH"] = common.VERIF
        scen2 = []
        tasks2 = []
        for (si, cls, L), (i, n) in rep_list:
            sc = scen[si]
            img = sc.image(i, n)
            fn2 = os.path.join(workdir, "lvl2-%d-%d-%d.bin" % (si, i, n))
            open(fn2, "wb").write(img)
            try:
                mods2, marks2 = crashmc.run_logged([sys.executable, writer, rel, sc.integ, sc.mode, fn2, str(L - 1)], fn2, env=env2)
            except RuntimeError as e:
                ctx.violation("restart-under-strace-fails:%s" % cls, "the logged restart of %s/%s from a crash image (class %s, %d exposed) failed: %s" % (sc.integ, sc.mode, cls, L, str(e)[-300:]), {"integ": sc.integ, "mode": sc.mode, "mod": i, "bytes": n})
                continue
            c = bytearray(img)
            for m in mods2:
                c = crashmc.apply(c, m)
            if bytes(c) != open(fn2, "rb").read():
                raise RuntimeError("second-level syscall log does not reproduce the archive for %s/%s" % (sc.integ, sc.mode))
            os.unlink(fn2)
            s2 = Scenario2(sc, img, L, mods2, marks2)
            scen2.append((s2, cls, L, i, n))
            for i2, n2, _ in crashmc.images(mods2, start=img):
                tasks2.append((len(scen2) - 1, i2, n2))
        ctx.note("second level: %d restarts, %d crash images" % (len(scen2), len(tasks2)))
        ev2 = Eval(rebound, [x[0] for x in scen2], workdir)
        tasks2 = ctx.shuffled(tasks2)
        res2 = pool.run_tasks(ev2, tasks2, timeout=120, chunk=32, progress=lambda d, n: ctx.note("second-level images %d/%d" % (d, n)))
        outcomes2 = set()
        for (k2, i2, n2), r in zip(tasks2, res2):
            s2, cls1, L1, i1, n1 = scen2[k2]
            case = {"integ": s2.integ, "mode": s2.mode, "mod": i1, "bytes": n1, "second": [i2, n2]}
            first = "first crash: class %s, %d exposed, mod %d byte %d" % (cls1, L1, i1, n1)
            if r[0] != "ok":
                frag = common.classify_crash(r[1])[0] if r[0] == "crash" else r[0]
                ctx.violation("second-level:opener-%s:%s" % (r[0], frag), "opening / restarting the image of a crash during the restart %s the process (%s/%s; %s; second crash at mod %d byte %d): %s" % (
                    "kills" if r[0] == "crash" else r[0] + "s", s2.integ, s2.mode, first, i2, n2, str(r[1])[-400:]), case)
                continue
            V2, cls2, L2 = r[1]
            outcomes2.add((cls1, cls2, L2 - L1))
            if L2 >= 0 and L2 < L1:
                ctx.violation("second-level:lost-snapshots:%s" % cls2, "after a crash during the restart the archive exposes %d snapshots, %d were readable before the restart (%s/%s; %s; second crash at mod %d byte %d)" % (L2, L1, s2.integ, s2.mode, first, i2, n2), case)
            for sig, what in V2:
                ctx.violation("second-level:" + sig, what + " [" + first + "]", case)
        cov = {
            "second_level_restarts": len(scen2), "second_level_images": len(tasks2), "second_level_outcomes": len(outcomes2),
            "evaluations": len(tasks) + len(tasks2), "distinct_nontrivial": len(outcomes) + len(outcomes2),
            "rule": "crash image = archive after every byte prefix of the strace-logged write(2) sequence of a 5-snapshot history (manual snapshots with a structural change, step cadence, interval cadence); "
                    "distinct = (cut class from the file's own field map, number of snapshots exposed); each image is opened by four openers (Python Simulationarchive, reb_simulationarchive_create_from_file, Simulation(file), reb_simulation_create_from_file), compared with the uninterrupted archive and restarted to completion",
            "samples": [{"integ": scen[0].integ, "mode": scen[0].mode, "mods": [(m[0], m[1], len(m[2])) if m[0] == "write" else m for m in scen[0].mods], "save_calls_end_after_mod": scen[0].marks, "sizes": scen[0].ends}],
            "scenarios": ["%s/%s" % (s.integ, s.mode) for s in scen], "cut_classes": classes,
            "exhaustive": True,
        }
    finally:
        shutil.rmtree(workdir, ignore_errors=True)
    return ctx.finish(LEVEL, cov, assumptions=[
        "a dying process loses its stdio buffer, keeps completed write(2) calls, and may have one write cut at any byte (no reordering, no lost completed writes: process crash, not power loss)",
        "when the cut lies inside the trailing 12-byte trailer of a snapshot the statement does not decide whether that snapshot counts as completed: both answers are accepted",
        "the strace log is checked to reproduce the final archive byte for byte before it is trusted",
    ])


def replay(ctx, case):
    rebound = ctx.use("asan")
    workdir = tmpdir()
    try:
        scen = build_scenarios(ctx, rebound, [(case["integ"], case["mode"])], workdir)
        ev = Eval(rebound, scen, workdir)
        V, cls, L = ev((0, case["mod"], case["bytes"]))
        print("cut class", cls, "exposed", L)
        for v in V:
            print(v)
        return 1 if V else 0
    finally:
        shutil.rmtree(workdir, ignore_errors=True)
