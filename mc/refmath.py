"""Reference mathematics that does not use REBOUND.

* gbs(): Gragg-Bulirsch-Stoer extrapolation integrator in numpy.longdouble (64-bit mantissa) for the gravitational
  N-body problem (optionally with extra first-order ODE components appended by a callback); self-validated on the
  analytic two-body problem by selftest().
* energy / momentum / angular momentum / centre of mass in longdouble.
"""
import math

import numpy as np

LD = np.longdouble
SEQ = [2, 4, 6, 8, 10, 12, 14, 16, 18, 20]


def accel(X, m, G, soft2=LD(0)):
    """X: (N,3) longdouble -> accelerations (N,3)"""
    d = X[:, None, :] - X[None, :, :]                 # r_i - r_j
    r2 = (d * d).sum(axis=2) + soft2
    np.fill_diagonal(r2, LD(1))
    inv = 1 / (r2 * np.sqrt(r2))
    np.fill_diagonal(inv, LD(0))
    return -G * (d * (m[None, :, None] * inv[:, :, None])).sum(axis=1)


def rhs_nbody(t, y, m, G, extra=None):
    N = len(m)
    X = y[:3 * N].reshape(N, 3)
    V = y[3 * N:6 * N]
    A = accel(X, m, G).reshape(3 * N)
    out = np.concatenate([V, A])
    if extra is not None:
        out = np.concatenate([out, extra(t, y)])
    return out


def _midpoint(f, t, y, H, n):
    h = H / n
    z0 = y
    z1 = y + h * f(t, y)
    for k in range(1, n):
        z0, z1 = z1, z0 + 2 * h * f(t + k * h, z1)
    return (z0 + z1 + h * f(t + H, z1)) / 2


def gbs(f, t0, y0, t1, tol=LD(1e-18), h0=None, kmax=8, maxsteps=200000):
    """integrate y' = f(t,y) from t0 to t1; relative tolerance per step against max|y| scale"""
    t = LD(t0)
    t1 = LD(t1)
    y = np.array(y0, dtype=LD)
    sgn = 1 if t1 > t0 else -1
    H = LD(h0) if h0 else (t1 - t) / 400
    H = abs(H) * sgn
    steps = 0
    while (t1 - t) * sgn > 0:
        if (t + H - t1) * sgn > 0:
            H = t1 - t
        T = []
        ok = False
        for k in range(kmax):
            n = SEQ[k]
            row = [_midpoint(f, t, y, H, n)]
            for j in range(1, k + 1):
                fac = (LD(SEQ[k]) / LD(SEQ[k - j])) ** 2
                row.append(row[j - 1] + (row[j - 1] - T[k - 1][j - 1]) / (fac - 1))
            T.append(row)
            if k >= 4:
                err = np.max(np.abs(row[k] - row[k - 1]))
                scale = np.max(np.abs(row[k])) + LD(1e-300)
                if err <= tol * scale:
                    ok = True
                    break
        if ok:
            t = t + H
            y = T[-1][-1]
            if len(T) <= kmax - 2:
                H = H * LD(1.5)
        else:
            H = H / 2
        steps += 1
        if steps > maxsteps:
            raise ArithmeticError("gbs: too many steps")
    return y


def pack(bodies):
    """bodies: list of (m,x,y,z,vx,vy,vz) -> (m, y)"""
    m = np.array([b[0] for b in bodies], dtype=LD)
    X = np.array([[b[1], b[2], b[3]] for b in bodies], dtype=LD).reshape(-1)
    V = np.array([[b[4], b[5], b[6]] for b in bodies], dtype=LD).reshape(-1)
    return m, np.concatenate([X, V])


def nbody_reference(G, bodies, T, tol=LD(1e-18), extra=None, extra0=None):
    m, y = pack(bodies)
    if extra0 is not None:
        y = np.concatenate([y, np.array(extra0, dtype=LD)])
    Gl = LD(G)
    return gbs(lambda t, yy: rhs_nbody(t, yy, m, Gl, extra), 0, y, T, tol)


def energy(G, m, y):
    N = len(m)
    X = y[:3 * N].reshape(N, 3)
    V = y[3 * N:6 * N].reshape(N, 3)
    K = (m * (V * V).sum(axis=1)).sum() / 2
    P = LD(0)
    for i in range(N):
        for j in range(i):
            d = X[i] - X[j]
            P -= LD(G) * m[i] * m[j] / np.sqrt((d * d).sum())
    return K + P


def selftest():
    """two-body problem, e=0.6, ten radians: compare with the analytic solution (Kepler's equation solved in mpmath)"""
    import mpmath as mp
    mp.mp.dps = 30
    e, a, mu = 0.6, 1.0, 1.0
    b = [(1.0, 0, 0, 0, 0, 0, 0), (0.0, a * (1 - e), 0, 0, 0, math.sqrt(mu / a * (1 + e) / (1 - e)), 0)]
    T = 10.0
    y = nbody_reference(1.0, b, T)
    M = mp.mpf(T) * mp.sqrt(mp.mpf(mu) / a ** 3)
    E = mp.findroot(lambda x: x - e * mp.sin(x) - M, M)
    x = a * (mp.cos(E) - e)
    yy = a * mp.sqrt(1 - mp.mpf(e) ** 2) * mp.sin(E)
    def tomp(v):
        hi = float(v)
        return mp.mpf(hi) + mp.mpf(float(v - LD(hi)))
    err = max(abs(tomp(y[3]) - x), abs(tomp(y[4]) - yy))
    return float(err)


if __name__ == "__main__":
    import time
    t = time.time()
    print("two-body self test error", selftest(), "in", time.time() - t, "s")
