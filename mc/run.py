"""./check <ID> [--tier quick|thorough] [--replay file]"""
import argparse
import importlib
import json
import os
import sys

VERIF = os.path.dirname(os.path.dirname(os.path.abspath(__file__)))
sys.path.insert(0, VERIF)
from mc import build, common  # noqa: E402


def main():
    ap = argparse.ArgumentParser()
    ap.add_argument("pid")
    ap.add_argument("--tier", default=os.environ.get("VERIF_TIER", "quick"), choices=["quick", "thorough"])
    ap.add_argument("--replay", default=None)
    a = ap.parse_args()
    if a.replay:
        a.replay = os.path.abspath(a.replay)
    pid = a.pid.upper()
    seed = int(os.environ.get("VERIF_SEED", "0") or 0)
    os.environ.setdefault("PYTHONHASHSEED", "0")
    mod = importlib.import_module("mc.checks." + pid.lower())
    if getattr(mod, "ASAN", False) and "libasan" not in os.environ.get("LD_PRELOAD", ""):
        build.build("asan")
        env = build.asan_env()
        env["PYTHONHASHSEED"] = "0"
        os.execve(sys.executable, [sys.executable] + sys.argv, env)
    shim = getattr(mod, "PRELOAD", None)
    if shim and os.path.basename(shim)[:-2] not in os.environ.get("LD_PRELOAD", ""):
        so = build.build_shim(shim)
        env = dict(os.environ)
        env["LD_PRELOAD"] = so
        env["PYTHONHASHSEED"] = "0"
        os.execve(sys.executable, [sys.executable] + sys.argv, env)
    ctx = common.Ctx(pid, a.tier, seed)
    os.chdir(os.environ.get("VERIF_TMP", "/var/tmp"))
    # scratch files of workers that were killed (a crash under ASan is an observation, the worker cannot clean up): drop old ones
    try:
        import glob, time
        now = time.time()
        for f in glob.glob("c[0-9][0-9]*"):
            try:
                if os.path.isfile(f) and now - os.path.getmtime(f) > 1800:
                    os.unlink(f)
            except OSError:
                pass
    except Exception:
        pass
    if a.replay:
        case = json.load(open(a.replay))
        rc = mod.replay(ctx, case["case"])
        sys.exit(rc)
    rc = mod.run(ctx)
    sys.stdout.flush()
    sys.exit(rc)


if __name__ == "__main__":
    main()
