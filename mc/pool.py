"""A fork-based worker pool in which a hang or a crash of one task is an *observation*, not a failure
of the harness: the culprit task is reported as ('hang', task) / ('crash', task, info) and the
remaining tasks continue on a fresh worker.  Results are returned in task order.
"""
import multiprocessing as mp
import multiprocessing.connection as mpc
import os
import signal
import sys
import tempfile
import time
import traceback

_ctx = mp.get_context("fork")


def _worker(fn, conn, errpath, init):
    try:
        fd = os.open(errpath, os.O_WRONLY | os.O_CREAT | os.O_TRUNC, 0o600)
        os.dup2(fd, 2)
        os.close(fd)
    except OSError:
        pass
    if init is not None:
        init()
    while True:
        try:
            msg = conn.recv()
        except EOFError:
            break
        if msg is None:
            break
        cid, tasks = msg
        for i, t in enumerate(tasks):
            try:
                r = ("ok", fn(t))
            except Exception:
                r = ("exc", traceback.format_exc())
            conn.send((cid, i, r))
    os._exit(0)


class _W:
    def __init__(self, fn, idx, tmpdir, init):
        self.errpath = os.path.join(tmpdir, "w%d.err" % idx)
        self.conn, child = _ctx.Pipe()
        self.proc = _ctx.Process(target=_worker, args=(fn, child, self.errpath, init), daemon=True)
        self.proc.start()
        child.close()
        self.chunk = None  # (cid, tasks, next_idx, t_last)

    def kill(self):
        try:
            os.kill(self.proc.pid, signal.SIGKILL)
        except OSError:
            pass
        self.proc.join()
        try:
            self.conn.close()
        except OSError:
            pass

    def errtail(self, n=6000):
        try:
            with open(self.errpath, "rb") as f:
                d = f.read()
            return (d if len(d) <= n else d[:n - 1500] + b"\n...\n" + d[-1500:]).decode(errors="replace")
        except OSError:
            return ""


def run_tasks(fn, tasks, nproc=None, timeout=60.0, chunk=None, init=None, progress=None):
    """Run fn(task) for every task. Returns list of results aligned with tasks:
       ('ok', value) | ('exc', traceback) | ('hang', seconds) | ('crash', {signal/exit, stderr})"""
    tasks = list(tasks)
    n = len(tasks)
    if n == 0:
        return []
    nproc = nproc or int(os.environ.get("VERIF_NPROC", "0")) or min(16, os.cpu_count() or 4)
    nproc = max(1, min(nproc, n))
    if chunk is None:
        chunk = max(1, min(64, n // (nproc * 8) or 1))
    results = [None] * n
    tmpdir = tempfile.mkdtemp(prefix="vpool-", dir=os.environ.get("VERIF_TMP", "/var/tmp"))
    queue = []  # list of (list of task indices)
    for s in range(0, n, chunk):
        queue.append(list(range(s, min(n, s + chunk))))
    queue.reverse()
    workers = [_W(fn, i, tmpdir, init) for i in range(nproc)]
    cid = 0
    done = 0
    t_prog = time.time()

    def feed(w):
        nonlocal cid
        if queue:
            idxs = queue.pop()
            cid += 1
            w.chunk = [cid, idxs, 0, time.time()]
            w.conn.send((cid, [tasks[i] for i in idxs]))
        else:
            w.chunk = None

    try:
        for w in workers:
            feed(w)
        while any(w.chunk is not None for w in workers):
            busy = [w for w in workers if w.chunk is not None]
            ready = mpc.wait([w.conn for w in busy], timeout=0.5)
            now = time.time()
            for w in busy:
                if w.conn in ready:
                    try:
                        while w.chunk is not None and w.conn.poll():
                            c, i, r = w.conn.recv()
                            idxs = w.chunk[1]
                            results[idxs[i]] = r
                            done += 1
                            w.chunk[2] = i + 1
                            w.chunk[3] = now
                            if i + 1 == len(idxs):
                                feed(w)
                    except (EOFError, OSError):
                        # worker died
                        w.proc.join()
                        code = w.proc.exitcode
                        idxs, nxt = w.chunk[1], w.chunk[2]
                        results[idxs[nxt]] = ("crash", {"exitcode": code, "stderr": w.errtail()})
                        done += 1
                        rest = idxs[nxt + 1:]
                        if rest:
                            queue.append(rest)
                        k = workers.index(w)
                        w.kill()
                        workers[k] = _W(fn, k, tmpdir, init)
                        feed(workers[k])
                elif now - w.chunk[3] > timeout:
                    idxs, nxt = w.chunk[1], w.chunk[2]
                    results[idxs[nxt]] = ("hang", now - w.chunk[3])
                    done += 1
                    rest = idxs[nxt + 1:]
                    if rest:
                        queue.append(rest)
                    k = workers.index(w)
                    w.kill()
                    workers[k] = _W(fn, k, tmpdir, init)
                    feed(workers[k])
            if progress and now - t_prog > 10:
                t_prog = now
                progress(done, n)
    finally:
        for w in workers:
            try:
                w.conn.send(None)
            except Exception:
                pass
        for w in workers:
            w.proc.join(timeout=1)
            if w.proc.is_alive():
                w.kill()
        import shutil
        shutil.rmtree(tmpdir, ignore_errors=True)
    return results
